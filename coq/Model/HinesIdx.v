(* The index structure jaxley builds for a cell (Cell._init_morph_jaxley_spsolve,
   compute_levels, compute_children_in_level, compute_parents_in_level,
   compute_children_and_parents, the per-level padding), as a function of the parent vector
   and the compartment counts.  Executable, axiom-free.  Compared exactly with the running
   code on every sampled cell; Proofs/HinesIdxFacts.v proves that the schedule checker
   accepts it for EVERY sorted parent vector and all counts >= 1. *)
From Coq Require Import List Arith Bool.
From JV Require Import HinesArr HinesCheck.
Import ListNotations.

Section Idx.
  Variable ps : list nat.      (* parents; entry 0 is ignored (the root has none) *)
  Variable ns : list nat.      (* compartments per branch *)

  Definition nbr : nat := length ps.
  Definition par_of (b : nat) : nat := nth b ps 0.
  Definition ncomp_of (b : nat) : nat := nth b ns 0.

  (* compute_levels *)
  Fixpoint lev (fuel b : nat) : nat :=
    match fuel with
    | 0 => 0
    | S f => if b =? 0 then 0 else S (lev f (par_of b))
    end.
  Definition depth (b : nat) : nat := lev b b.
  Definition nlev : nat := list_max (map depth (seq 0 nbr)).

  Definition is_child_of (p b : nat) : bool := (1 <=? b) && (par_of b =? p).
  Definition has_kids (p : nat) : bool := existsb (is_child_of p) (seq 0 nbr).
  Definition kids_of (p : nat) : list nat := filter (is_child_of p) (seq 0 nbr).
  (* np.unique(par_inds) and the rank of a parent in it (= index of its branch point) *)
  Definition parents_with_kids : list nat := filter has_kids (seq 0 nbr).
  Definition bp_of (p : nat) : nat := length (filter has_kids (seq 0 p)).

  Definition in_level (k : nat) : list nat := filter (fun b => depth b =? k) (seq 0 nbr).
  Definition cil (k : nat) : list (nat * nat) := map (fun b => (b, bp_of (par_of b))) (in_level (S k)).
  Definition pil (k : nat) : list (nat * nat) := map (fun p => (p, bp_of p)) (filter has_kids (in_level k)).
  Definition levels_idx : list level := map (fun k => (cil k, pil k)) (seq 0 nlev).

  (* every branch is padded to the longest branch of its level *)
  Definition pl_of (b : nat) : nat := list_max (map ncomp_of (in_level (depth b))).
  Definition cs_of (b : nat) : nat := fold_right Nat.add 0 (map pl_of (seq 0 b)).

  Definition layout_of : layout := mklayout cs_of pl_of ncomp_of.
  Definition topo_of : topo :=
    mktopo nbr (length parents_with_kids)
           (fun b => if b =? 0 then None else Some (bp_of (par_of b)))
           (fun b => if has_kids b then Some (bp_of b) else None)
           (fun j => kids_of (nth j parents_with_kids 0))
           (fun j => nth j parents_with_kids 0).

  Definition ops_of_tree : list op := ops_of_idx layout_of levels_idx [0].

  (* what the harness compares with the code: cumsum, padded lengths, levels *)
  Definition idx_summary : list nat * (list nat * list level) :=
    (map cs_of (seq 0 (S nbr)), (map pl_of (seq 0 nbr), levels_idx)).
End Idx.
