(* Decidable versions of the remaining consistency conditions of Proofs/AssembleGraph.v (graph_struct,
   graph_struct_bp, the correspondence between compartments and real slots), on the integer part of the edge list.
   Evaluated on the code's own arrays for structures that are not cells (networks); for cells the conditions are
   theorems (Proofs/AsmGraphFacts.v).  Axiom-free. *)
From Coq Require Import List Arith Bool.
From JV Require Import HinesArr HinesCheck AsmStruct.
Import ListNotations.

Definition t_src (e : trip) : nat := fst (fst e).

Definition graph_struct_b (ly : layout) (tp : topo) (mask : nat -> nat) (ncomp : nat) (ts : list trip)
           (group child_inds par_inds : list nat) : bool :=
  let n3 := length par_inds in
  let n4 := length child_inds in
  let bs := seq 0 (nb tp) in
  nodupb par_inds
  && nodupb (map mask (seq 0 ncomp))
  && forallb (fun e => negb (t_type e <=? 2) || (t_sink e <? ncomp)) ts
  && forallb (fun e => negb (t_type e =? 0) || ((t_src e <? ncomp) && negb (t_src e =? t_sink e))) ts
  && forallb (fun e => negb ((t_type e =? 0) && (t_src e <? t_sink e))
                       || ((mask (t_src e) + 1 =? mask (t_sink e)) && forallb (fun b => negb (mask (t_sink e) =? cs ly b)) bs)) ts
  && forallb (fun e => negb ((t_type e =? 0) && (t_sink e <? t_src e))
                       || ((mask (t_src e) =? mask (t_sink e) + 1) && forallb (fun b => negb (mask (t_sink e) =? cs ly b + (nc ly b - 1))) bs)) ts
  && forallb (fun idx => t_src (nth idx (t_of_type 1 ts) (0, 0, 0)) =? ncomp + nth idx group 0) (seq 0 n3)
  && forallb (fun idx => t_src (nth idx (t_of_type 2 ts) (0, 0, 0)) =? ncomp + nth (n3 + idx) group 0) (seq 0 n4)
  && forallb (fun b => match cbp tp b with Some _ => existsb (Nat.eqb b) par_inds | None => true end) bs
  && forallb (fun idx => nth idx par_inds 0 <? nb tp) (seq 0 n3)
  && forallb (fun idx => nth idx child_inds 0 <? nb tp) (seq 0 n4)
  (* branch-point rows *)
  && forallb (fun idx => t_sink (nth idx (t_of_type 3 ts) (0, 0, 0)) =? ncomp + nth idx group 0) (seq 0 n3)
  && forallb (fun idx => (t_src (nth idx (t_of_type 3 ts) (0, 0, 0)) <? ncomp)
                         && (mask (t_src (nth idx (t_of_type 3 ts) (0, 0, 0))) =? last ly (nth idx par_inds 0))) (seq 0 n3)
  && forallb (fun idx => t_sink (nth idx (t_of_type 4 ts) (0, 0, 0)) =? ncomp + nth (n3 + idx) group 0) (seq 0 n4)
  && forallb (fun idx => (t_src (nth idx (t_of_type 4 ts) (0, 0, 0)) <? ncomp)
                         && (mask (t_src (nth idx (t_of_type 4 ts) (0, 0, 0))) =? first ly (nth idx child_inds 0))) (seq 0 n4)
  (* compartments <-> real slots *)
  && forallb (fun c => existsb (fun b => (cs ly b <=? mask c) && (mask c <? cs ly b + nc ly b)) bs) (seq 0 ncomp)
  && forallb (fun b => forallb (fun r => existsb (fun c => mask c =? cs ly b + r) (seq 0 ncomp)) (seq 0 (nc ly b))) bs.

Definition graph_struct_idx (nb_ nbp_ : nat) (pbp_ cbp_ : list (option nat)) (kids_ : list (list nat)) (par_ : list nat)
           (cs_ pl_ nc_ : list nat) (mask : list nat) (ncomp : nat) (ts : list trip) (group child_inds par_inds : list nat) : bool :=
  let ly := mklayout (nthD cs_) (nthD pl_) (nthD nc_) in
  let tp := mktopo nb_ nbp_ (nthO pbp_) (nthO cbp_) (nthL kids_) (nthD par_) in
  graph_struct_b ly tp (nthD mask) ncomp ts group child_inds par_inds.
