(* Executable model of jax.lax.scan, of jaxley.utils.jax_utils.nested_checkpoint_scan
   (reshape of the leading axis into nested_lengths, recursive scan, concatenation of the
   stacked outputs; jax.checkpoint is semantically the identity) and of the time loop of
   jaxley.integrate (padding to prod(checkpoint_lengths), initial recording, truncation).
   Axiom-free. *)
From Coq Require Import List Arith Lia.
Import ListNotations.

Section Scan.
  Context {S X Y : Type}.

  Fixpoint scan (f : S -> X -> S * Y) (s : S) (xs : list X) : S * list Y :=
    match xs with
    | [] => (s, [])
    | x :: xs' => let (s', y) := f s x in
                  let (s'', ys) := scan f s' xs' in (s'', y :: ys)
    end.
End Scan.

(* x.reshape((k, m) + x.shape[1:]) on the leading axis: k chunks of m consecutive rows *)
Fixpoint chunks {X} (m k : nat) (xs : list X) : list (list X) :=
  match k with
  | 0 => []
  | S k' => firstn m xs :: chunks m k' (skipn m xs)
  end.

Definition prod (l : list nat) : nat := fold_right Nat.mul 1 l.

Section Nested.
  Context {S X Y : Type} (f : S -> X -> S * Y).

  (* _inner_nested_scan: len(lengths) == 1 -> scan; otherwise scan `sub_scans` over the
     leading axis of the reshaped input and concatenate the stacked outputs *)
  Fixpoint nested_scan (lengths : list nat) (s : S) (xs : list X) : S * list Y :=
    match lengths with
    | [] => (s, [])
    | [n] => scan f s xs
    | n :: rest =>
        let (s', out) := scan (fun c sub => nested_scan rest c sub) s (chunks (prod rest) n xs) in
        (s', concat out)
    end.
End Nested.

Section Integrate.
  Context {S X Y : Type}.
  Variable step : S -> X -> S.       (* one call of step_fn with the externals of that step *)
  Variable rec : S -> Y.             (* the gather of the recorded entries *)
  Variable zero : X.                 (* the all-zero row used for padding *)

  Definition body (s : S) (x : X) : S * Y := let s' := step s x in (s', rec s').

  (* integrate(...) given the per-step inputs (after t_max handling):
     returns (recordings incl. the initial column, returned states) *)
  Definition integrate (s0 : S) (inputs : list X) (checkpoint_lengths : option (list nat))
    : list Y * S :=
    let n := length inputs in
    let lens := match checkpoint_lengths with None => [n] | Some l => l end in
    let padded := inputs ++ repeat zero (prod lens - n) in
    let (sf, recs) := nested_scan body lens s0 padded in
    (rec s0 :: firstn n recs, sf).

  (* reference semantics: the state after k steps *)
  Definition run (s0 : S) (inputs : list X) : S := fold_left step inputs s0.
  Fixpoint states_after (s : S) (inputs : list X) : list S :=
    match inputs with [] => [] | x :: r => let s' := step s x in s' :: states_after s' r end.
End Integrate.
