(* Table surgery of Module.set_ncomp (C13): the rows of one branch are replaced, later rows
   move, group labels follow.  Axiom-free, executable. *)
From Coq Require Import List Arith Bool Lia.
Import ListNotations.

(* rows [s, s+old) are replaced by `new` *)
Definition replace_rows {A} (l : list A) (s old : nat) (new : list A) : list A :=
  firstn s l ++ new ++ skipn (s + old) l.

(* groups store row labels: rows before the branch stay, rows of the branch become ALL new
   rows of the branch (if the group contained any of its old rows), later rows shift *)
Definition remap_group (g : list nat) (s old new : nat) : list nat :=
  filter (fun r => r <? s) g
  ++ (if existsb (fun r => (s <=? r) && (r <? s + old)) g then seq s new else [])
  ++ map (fun r => r - old + new) (filter (fun r => s + old <=? r) g).

(* the behaviour before the fix: labels are left as they are *)
Definition remap_group_old (g : list nat) (s old new : nat) : list nat := g.

(* row label -> where the row is after the surgery (None: the row was replaced) *)
Definition move_row (s old new r : nat) : option nat :=
  if r <? s then Some r else if r <? s + old then None else Some (r - old + new).
