(* Editing histories (C19): a small state machine for the mutual consistency of the tables
   of a module — which rows have which channel, where each parameter column is defined,
   and which rows recordings / inputs / groups refer to.  Executable, axiom-free. *)
From Coq Require Import List Arith Bool Lia.
From JV Require Import SetNcomp.
Import ListNotations.

Definition mem (x : nat) (l : list nat) : bool := existsb (Nat.eqb x) l.
Definition union (a b : list nat) : list nat := a ++ filter (fun x => negb (mem x a)) b.
Definition diff (a b : list nat) : list nat := filter (fun x => negb (mem x b)) a.
Definition fupd {A} (f : nat -> A) (k : nat) (v : A) : nat -> A := fun x => if x =? k then v else f x.

Record st := mk {
  nrows : nat;                      (* compartments 0 .. nrows-1 *)
  chan : nat -> list nat;           (* channel id  -> rows where the channel flag is True *)
  col : nat -> list nat;            (* parameter/state column id -> rows where it is not NaN *)
  recs : list nat;                  (* rows referred to by recordings of compartment states *)
  exts : list nat;                  (* rows referred to by stimuli (one entry per stimulated row, repetitions kept) *)
  clamps : list nat;                (* rows referred to by voltage clamps *)
  groups : list (list nat);         (* rows of each named group *)
  trains : list (list (list nat))   (* trainables: per make_trainable call the groups of rows sharing one value *)
}.

Section Ops.
  (* which columns a channel owns; columns can be shared (vt: Na and K; eK: K and Km) *)
  Variable owns : nat -> list nat.
  Variable nchan : nat.             (* channel ids 0 .. nchan-1 *)

  Definition other_users (s : st) (ch c : nat) (r : nat) : bool :=
    existsb (fun k => negb (k =? ch) && mem c (owns k) && mem r (chan s k)) (seq 0 nchan).

  Inductive op :=
  | Insert (ch : nat) (rows : list nat)
  | Delete (ch : nat) (rows : list nat)
  | DeleteOld (ch : nat) (rows : list nat)      (* the behaviour before the fix *)
  | Record_ (rows : list nat) | DeleteRecordings (rows : list nat)
  | Stimulate (rows : list nat) | DeleteStimuli (rows : list nat)
  | AddToGroup (g : nat) (rows : list nat)
  | SetNcomp (s old new : nat)
  | Clamp (rows : list nat) | DeleteClamps (rows : list nat)       (* inputs, like stimuli *)
  | SetParam (rows : list nat) | InitStates                        (* values only: no structural effect *)
  | MakeTrainable (gs : list (list nat))
  | DeleteTrainables (rows : list nat)
  | DeleteTrainablesOld (rows : list nat).                         (* before the fix: geometric keys were kept *)

  Definition nonempty (l : list nat) : bool := match l with [] => false | _ => true end.
  Definition nonempty2 (l : list (list nat)) : bool := match l with [] => false | _ => true end.
  Definition drop_rows (rows : list nat) (tr : list (list nat)) : list (list nat) :=
    filter nonempty (map (fun g => diff g rows) tr).

  Definition step (s : st) (o : op) : st :=
    match o with
    | Insert ch rows =>
        mk (nrows s) (fupd (chan s) ch (union (chan s ch) rows))
           (fold_left (fun f c => fupd f c (union (f c) rows)) (owns ch) (col s))
           (recs s) (exts s) (clamps s) (groups s) (trains s)
    | Delete ch rows =>
        mk (nrows s) (fupd (chan s) ch (diff (chan s ch) rows))
           (fold_left (fun f c => fupd f c (diff (f c) (filter (fun r => negb (other_users s ch c r)) rows)))
                      (owns ch) (col s))
           (recs s) (exts s) (clamps s) (groups s) (trains s)
    | DeleteOld ch rows =>
        mk (nrows s) (fupd (chan s) ch (diff (chan s ch) rows))
           (fold_left (fun f c => fupd f c (diff (f c) rows)) (owns ch) (col s))
           (recs s) (exts s) (clamps s) (groups s) (trains s)
    | Record_ rows => mk (nrows s) (chan s) (col s) (union (recs s) rows) (exts s) (clamps s) (groups s) (trains s)
    | DeleteRecordings rows => mk (nrows s) (chan s) (col s) (diff (recs s) rows) (exts s) (clamps s) (groups s) (trains s)
    | Stimulate rows => mk (nrows s) (chan s) (col s) (recs s) (exts s ++ rows) (clamps s) (groups s) (trains s)
    | Clamp rows => mk (nrows s) (chan s) (col s) (recs s) (exts s) (union (clamps s) rows) (groups s) (trains s)
    | DeleteStimuli rows => mk (nrows s) (chan s) (col s) (recs s) (diff (exts s) rows) (clamps s) (groups s) (trains s)
    | DeleteClamps rows => mk (nrows s) (chan s) (col s) (recs s) (exts s) (diff (clamps s) rows) (groups s) (trains s)
    | AddToGroup g rows =>
        mk (nrows s) (chan s) (col s) (recs s) (exts s) (clamps s)
           (if g <? length (groups s)
            then map (fun ig => if fst ig =? g then union (snd ig) rows else snd ig) (combine (seq 0 (length (groups s))) (groups s))
            else groups s ++ [rows])
           (trains s)
    | SetNcomp b old new =>
        (* only allowed without recordings / inputs (the code asserts it); rows of every
           table move with the compartments *)
        mk (nrows s - old + new)
           (fun k => remap_group (chan s k) b old new)
           (fun c => remap_group (col s c) b old new)
           (recs s) (exts s) (clamps s) (map (fun g => remap_group g b old new) (groups s)) (trains s)
    | SetParam _ | InitStates | DeleteTrainablesOld _ => s
    | MakeTrainable gs => mk (nrows s) (chan s) (col s) (recs s) (exts s) (clamps s) (groups s) (trains s ++ [gs])
    | DeleteTrainables rows =>
        mk (nrows s) (chan s) (col s) (recs s) (exts s) (clamps s) (groups s)
           (filter nonempty2 (map (drop_rows rows) (trains s)))
    end.

  Definition valid (s : st) (o : op) : Prop :=
    match o with
    | Insert ch rows | Delete ch rows | DeleteOld ch rows =>
        ch < nchan /\ NoDup (owns ch) /\ Forall (fun r => r < nrows s) rows
    | Record_ rows | DeleteRecordings rows | Stimulate rows | DeleteStimuli rows
    | Clamp rows | DeleteClamps rows | SetParam rows | DeleteTrainables rows | DeleteTrainablesOld rows =>
        Forall (fun r => r < nrows s) rows
    | AddToGroup g rows => Forall (fun r => r < nrows s) rows
    | SetNcomp b old new => b + old <= nrows s /\ 0 < old /\ 0 < new /\ recs s = [] /\ exts s = [] /\ clamps s = [] /\ trains s = []
    | InitStates => True
    | MakeTrainable gs => Forall (Forall (fun r => r < nrows s)) gs
    end.

  (* consistency: every table refers to existing rows, and a parameter column is defined
     exactly on the rows of the channels that own it *)
  Definition refs_exist (s : st) : Prop :=
    Forall (fun r => r < nrows s) (recs s) /\ Forall (fun r => r < nrows s) (exts s) /\ Forall (fun r => r < nrows s) (clamps s) /\
    Forall (Forall (fun r => r < nrows s)) (groups s) /\
    (forall k, k < nchan -> Forall (fun r => r < nrows s) (chan s k)) /\
    Forall (Forall (Forall (fun r => r < nrows s))) (trains s).
  Definition params_where_channel (s : st) : Prop :=
    forall c r, In r (col s c) <-> exists k, k < nchan /\ In c (owns k) /\ In r (chan s k).
  Definition Inv (s : st) : Prop := refs_exist s /\ params_where_channel s.

  Definition init (n : nat) : st := mk n (fun _ => []) (fun _ => []) [] [] [] [] [].
End Ops.
