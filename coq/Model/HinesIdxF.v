(* The index structure jaxley builds for a NETWORK (a forest: several root branches), as a function of the global
   parent vector, the compartment counts and the flags saying which branches are roots (Network.__init__,
   Network._init_morph_jaxley_spsolve, merge_cells): the levels of all cells are merged, branch points are numbered
   over the whole network, every branch is padded to the longest branch of its level.  (The code pads within each
   cell and then REFUSES networks in which the per-level paddings of the cells differ; for the networks it accepts the
   two coincide, which the harness checks by comparing this model exactly with the code's indexer.)
   Executable, axiom-free.  Model/HinesIdx.v is the special case of one root. *)
From Coq Require Import List Arith Bool.
From JV Require Import HinesArr HinesCheck.
Import ListNotations.

Section IdxF.
  Variable ps : list nat.      (* global parents; ignored for roots *)
  Variable ns : list nat.      (* compartments per branch *)
  Variable rs : list bool.     (* is the branch a root? *)

  Definition nbrF : nat := length ps.
  Definition par_ofF (b : nat) : nat := nth b ps 0.
  Definition ncomp_ofF (b : nat) : nat := nth b ns 0.
  Definition is_root (b : nat) : bool := nth b rs false.

  Fixpoint levF (fuel b : nat) : nat :=
    match fuel with
    | 0 => 0
    | S f => if is_root b then 0 else S (levF f (par_ofF b))
    end.
  Definition depthF (b : nat) : nat := levF (S b) b.
  Definition nlevF : nat := list_max (map depthF (seq 0 nbrF)).

  Definition is_child_ofF (p b : nat) : bool := negb (is_root b) && (par_ofF b =? p).
  Definition has_kidsF (p : nat) : bool := existsb (is_child_ofF p) (seq 0 nbrF).
  Definition kids_ofF (p : nat) : list nat := filter (is_child_ofF p) (seq 0 nbrF).
  Definition parents_with_kidsF : list nat := filter has_kidsF (seq 0 nbrF).
  Definition bp_ofF (p : nat) : nat := length (filter has_kidsF (seq 0 p)).

  Definition in_levelF (k : nat) : list nat := filter (fun b => depthF b =? k) (seq 0 nbrF).
  Definition cilF (k : nat) : list (nat * nat) := map (fun b => (b, bp_ofF (par_ofF b))) (in_levelF (S k)).
  Definition pilF (k : nat) : list (nat * nat) := map (fun p => (p, bp_ofF p)) (filter has_kidsF (in_levelF k)).
  Definition levels_idxF : list level := map (fun k => (cilF k, pilF k)) (seq 0 nlevF).

  (* the code pads per cell: a branch is padded to the longest branch of ITS cell at its level
     (Cell._init_morph_jaxley_spsolve; Network concatenates the per-cell paddings) *)
  Definition cell_ofF (b : nat) : nat := length (filter is_root (seq 0 (S b))).
  Definition same_cell_level (b c : nat) : bool := (cell_ofF c =? cell_ofF b) && (depthF c =? depthF b).
  Definition pl_ofF (b : nat) : nat := list_max (map ncomp_ofF (filter (same_cell_level b) (seq 0 nbrF))).
  Definition cs_ofF (b : nat) : nat := fold_right Nat.add 0 (map pl_ofF (seq 0 b)).

  Definition layout_ofF : layout := mklayout cs_ofF pl_ofF ncomp_ofF.
  Definition topo_ofF : topo :=
    mktopo nbrF (length parents_with_kidsF)
           (fun b => if is_root b then None else Some (bp_ofF (par_ofF b)))
           (fun b => if has_kidsF b then Some (bp_ofF b) else None)
           (fun j => kids_ofF (nth j parents_with_kidsF 0))
           (fun j => nth j parents_with_kidsF 0).

  Definition roots_ofF : list nat := filter is_root (seq 0 nbrF).
  Definition ops_of_forest : list op := ops_of_idx layout_ofF levels_idxF roots_ofF.

  Definition idx_summaryF : list nat * (list nat * (list level * list nat)) :=
    (map cs_ofF (seq 0 (S nbrF)), (map pl_ofF (seq 0 nbrF), (levels_idxF, roots_ofF))).
End IdxF.
