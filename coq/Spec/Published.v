(* Transcription of the published model equations (trusted; no network, so from the
   sources as cited in properties.jsonl):
   - Hodgkin & Huxley 1952 at 6.3 C in the modern sign convention, as NEURON's hh.mod
     (including hh.mod's vtrap, which continues x/(exp(x/y)-1) through x = 0);
   - Pospischil et al., Biol Cybern 2008 (Na, K, M, L-type and T-type Ca, leak);
   - Abbott & Marder 1998 graded synapse (as in Prinz et al.: V_th = -35, Delta = 10).
   Voltages mV, times ms, conductances S/cm^2 (channels) or uS (synapses). *)
From Coq Require Import Reals.
From JV Require Import Prim.
Local Open Scope R_scope.

Module Pub.

(* NEURON hh.mod:  vtrap(x,y) = x/(exp(x/y)-1), with y*(1 - x/y/2) for |x/y| < 1e-6 *)
Definition vtrap (x y : R) : R :=
  if rltb (Rabs (x / y)) (1 / 1000000) then y * (1 - x / y / 2) else x / (exp (x / y) - 1).

Definition HH_alpha_m v := (1/10) * vtrap (- (v + 40)) 10.
Definition HH_beta_m v := 4 * exp (- (v + 65) / 18).
Definition HH_alpha_h v := (7/100) * exp (- (v + 65) / 20).
Definition HH_beta_h v := 1 / (exp (- (v + 35) / 10) + 1).
Definition HH_alpha_n v := (1/100) * vtrap (- (v + 55)) 10.
Definition HH_beta_n v := (1/8) * exp (- (v + 65) / 80).
Definition HH_current m h n v gNa gK gL eNa eK eL :=
  gNa * m ^ 3 * h * (v - eNa) + gK * n ^ 4 * (v - eK) + gL * (v - eL).
(* hh.mod defaults: gnabar .12, gkbar .036, gl .0003 S/cm2, el -54.3, ena 50, ek -77 mV *)
Definition HH_gNa := 12/100.   Definition HH_gK := 36/1000.  Definition HH_gL := 3/10000.
Definition HH_eNa := 50.       Definition HH_eK := - 77.     Definition HH_eL := - (543/10).

(* Pospischil et al. 2008 *)
Definition Na_alpha_m v vt := - (32/100) * (v - vt - 13) / (exp (- (v - vt - 13) / 4) - 1).
Definition Na_beta_m v vt := (28/100) * (v - vt - 40) / (exp ((v - vt - 40) / 5) - 1).
Definition Na_alpha_h v vt := (128/1000) * exp (- (v - vt - 17) / 18).
Definition Na_beta_h v vt := 4 / (1 + exp (- (v - vt - 40) / 5)).
Definition Na_current m h v gNa eNa := gNa * m ^ 3 * h * (v - eNa).
Definition K_alpha_n v vt := - (32/1000) * (v - vt - 15) / (exp (- (v - vt - 15) / 5) - 1).
Definition K_beta_n v vt := (1/2) * exp (- (v - vt - 10) / 40).
Definition K_current n v gK eK := gK * n ^ 4 * (v - eK).
Definition Km_p_inf v := 1 / (1 + exp (- (v + 35) / 10)).
Definition Km_tau_p v taumax := taumax / ((33/10) * exp ((v + 35) / 20) + exp (- (v + 35) / 20)).
Definition Km_current p v gKm eK := gKm * p * (v - eK).
Definition CaL_alpha_q v := (55/1000) * (- 27 - v) / (exp ((- 27 - v) / (38/10)) - 1).
Definition CaL_beta_q v := (94/100) * exp ((- 75 - v) / 17).
Definition CaL_alpha_r v := (457/1000000) * exp ((- 13 - v) / 50).
Definition CaL_beta_r v := (65/10000) / (exp ((- 15 - v) / 28) + 1).
Definition CaL_current q r v gCaL eCa := gCaL * q ^ 2 * r * (v - eCa).
Definition CaT_s_inf v vx := 1 / (1 + exp (- (v + vx + 57) / (62/10))).
Definition CaT_u_inf v vx := 1 / (1 + exp ((v + vx + 81) / 4)).
(* tau_u = 30.8 + (211.4 + exp((V+Vx+113.2)/5)) / (3.7 (1 + exp((V+Vx+84)/3.2))): the constant
   30.8 ms is NOT divided by the voltage-dependent denominator (Pospischil et al. 2008, I_T;
   Huguenard & McCormick 1992) *)
Definition CaT_tau_u v vx :=
  (308/10) + ((2114/10) + exp ((v + vx + (1132/10)) / 5))
  / ((37/10) * (1 + exp ((v + vx + 84) / (32/10)))).
Definition CaT_current u v gCaT vx eCa := gCaT * (CaT_s_inf v vx) ^ 2 * u * (v - eCa).
Definition Leak_current v gLeak eLeak := gLeak * (v - eLeak).

(* Abbott & Marder 1998 *)
Definition Syn_s_inf v_pre := 1 / (1 + exp ((- 35 - v_pre) / 10)).
Definition Syn_tau_s v_pre k_minus := (1 - Syn_s_inf v_pre) / k_minus.
Definition Syn_current s v_post gS e_syn := gS * s * (v_post - e_syn).

End Pub.
