(* What "a gate follows the exact exponential update, stays in [0,1], moves toward and
   never past its steady state, and init_state is its fixed point" means (C03, C14).
   Code-independent. *)
From Coq Require Import Reals.
From Coquelicot Require Import Coquelicot.
From JV Require Import RLemmas.
Local Open Scope R_scope.

(* the closed-form solution of  dx/dt = (xinf - x)/tau  over one step dt at frozen v *)
Definition ode_solution (x xinf tau dt : R) : R := xinf + (x - xinf) * exp (- dt / tau).

Lemma expeuler_is_ode_solution x xinf tau dt :
  expeuler x xinf (exp (- dt / tau)) = ode_solution x xinf tau dt.
Proof. unfold expeuler, ode_solution; ring. Qed.

(* a gate given by rate constants alpha(v), beta(v):  xinf = a/(a+b), tau = 1/(a+b) *)
Definition ab_gate_ok (a b init : R -> R) (init_dom : R -> Prop)
           (upd : R -> R -> R -> R) (dom : R -> R -> R -> Prop) : Prop :=
  forall v,
    0 < a v /\ 0 < b v /\
    init_dom v /\ init v = a v / (a v + b v) /\
    forall x dt, 0 < dt -> 0 <= x <= 1 ->
      dom x dt v /\
      upd x dt v = ode_solution x (a v / (a v + b v)) (1 / (a v + b v)) dt /\
      0 <= upd x dt v <= 1 /\
      Rmin x (init v) <= upd x dt v <= Rmax x (init v) /\
      upd (init v) dt v = init v.

(* a gate given by steady state xinf(v) and time constant tau(v) *)
Definition it_gate_ok (xinf tau init : R -> R) (init_dom : R -> Prop)
           (upd : R -> R -> R -> R) (dom : R -> R -> R -> Prop) : Prop :=
  forall v,
    0 < xinf v < 1 /\ 0 < tau v /\
    init_dom v /\ init v = xinf v /\
    forall x dt, 0 < dt -> 0 <= x <= 1 ->
      dom x dt v /\
      upd x dt v = ode_solution x (xinf v) (tau v) dt /\
      0 <= upd x dt v <= 1 /\
      Rmin x (xinf v) <= upd x dt v <= Rmax x (xinf v) /\
      upd (xinf v) dt v = xinf v.

(* init_state is a fixed point of update_states, for every voltage and time step *)
Definition fixed_point (init : R -> R) (init_dom : R -> Prop) (upd : R -> R -> R -> R) : Prop :=
  forall v dt, 0 < dt -> init_dom v /\ 0 <= init v <= 1 /\ upd (init v) dt v = init v.


(* t |-> ode_solution x0 xinf tau t  has value x0 at t = 0 and derivative (xinf - x)/tau *)
Definition is_derive_ode (x0 xinf tau t : R) : Prop :=
  ode_solution x0 xinf tau 0 = x0 /\
  is_derive (fun s => ode_solution x0 xinf tau s) t
            ((xinf - ode_solution x0 xinf tau t) / tau).
