#!/bin/sh
# usage: tools/seedsome.sh <seed-name>...   (like seedall.sh for the named seeds)
cd "$(dirname "$0")/.."
for n in "$@"; do
  d=seeded/$n
  p=$(python3 -c "import json;m=json.load(open('$d/meta.json'));print(' '.join(list(m['detected_by'])[:1]))")
  if ! git -C /repo apply --check "$(pwd)/$d/patch.diff" 2>/dev/null; then echo "$n: PATCH-DOES-NOT-APPLY"; continue; fi
  out=$(tools/seedtest.sh "$(pwd)/$d/patch.diff" $p 2>&1)
  v=$(echo "$out" | grep -c "^VIOLATION")
  echo "$n [$p]: violations_lines=$v $(echo "$out" | grep -E '^== |no-failing' | cut -c1-160 | tr '\n' ' ')"
done
