"""Array-level tie for C01: the index structures the running code built for a module
(JaxleySolveIndexer, comp_edges, par/child indices) and random exact inputs are fed to
jaxley.solver_voltage.step_voltage_implicit_with_jaxley_spsolve and, as Coq terms, to
Model/HinesArr (arr_stepQ); the verified schedule checker (Proofs/HinesArrFacts.check) is
evaluated on the same index structures."""
from fractions import Fraction as Fr

from cablelib import q


def nat_list(xs):
    return "[" + "; ".join(f"{int(x)}%nat" for x in xs) + "]"


def q_list(xs):
    return "[" + "; ".join(q(x) for x in xs) + "]"


def pair_list(ps):
    return "[" + "; ".join(f"({int(a)}%nat, {int(b)}%nat)" for a, b in ps) + "]"


def structure(m):
    """the index structure of module m as plain Python data"""
    import numpy as np
    idx = m._solve_indexer
    cum = [int(x) for x in np.asarray(idx.cumsum_ncomp)]
    nb = len(cum) - 1
    ce = m._comp_edges
    levels = []
    for cil, pil in zip(idx.children_in_level, idx.parents_in_level):
        levels.append(([(int(a), int(b)) for a, b in np.asarray(cil)], [(int(a), int(b)) for a, b in np.asarray(pil)]))
    return {
        "nb": nb,
        "cs": cum[:-1],
        "pl": [cum[i + 1] - cum[i] for i in range(nb)],
        "nc": [int(x) for x in np.asarray(idx.ncomp_per_branch)],
        "levels": levels,
        "roots": [int(x) for x in np.asarray(idx.root_inds)],
        "mask": [int(x) for x in np.asarray(idx.remapped_node_indices)],
        "ncomp": len(m._internal_node_inds),
        "edges": [(int(a), int(b), int(t)) for a, b, t in zip(ce["source"], ce["sink"], ce["type"])],
        "group": [int(x) for x in np.asarray(idx.branchpoint_group_inds)] if idx.branchpoint_group_inds is not None else [],
        "child_inds": [int(x) for x in np.asarray(m._child_inds)],
        "par_inds": [int(x) for x in np.asarray(m._par_inds)],
    }


def coq_levels(levels):
    return "[" + "; ".join(f"({pair_list(c)}, {pair_list(p)})" for c, p in levels) + "]"


def coq_layout_args(st):
    return f"{nat_list(st['cs'])} {nat_list(st['pl'])} {nat_list(st['nc'])} {coq_levels(st['levels'])} {nat_list(st['roots'])}"


def coq_step_expr(st, g, v, vt, ct, dt, fn="arr_stepQ"):
    es = "[" + "; ".join(f"({a}%nat, {b}%nat, {t}%nat, {q(x)})" for (a, b, t), x in zip(st["edges"], g)) + "]"
    return (f"{fn} {coq_layout_args(st)} {nat_list(st['mask'])} {st['ncomp']}%nat {es} {q_list(v)} {q_list(vt)} {q_list(ct)} {q(dt)} "
            f"{nat_list(st['group'])} {nat_list(st['child_inds'])} {nat_list(st['par_inds'])}")


def topology(st):
    """what the schedule is checked against, derived from the comp_edges only (NOT from the
    level structure): for every branch the branch point it hangs on / carries at its end,
    for every branch point its parent branch and child branches."""
    nb = st["nb"]
    # compartment -> (branch, offset)
    starts = []
    s = 0
    for n in st["nc"]:
        starts.append(s)
        s += n
    def branch_of(c):
        for b in range(nb):
            if starts[b] <= c < starts[b] + st["nc"][b]:
                return b, c - starts[b]
        raise ValueError(c)
    ncomp = st["ncomp"]
    pbp, cbp, kids, par = {}, {}, {}, {}
    for (src, snk, t) in st["edges"]:
        if t == 1:      # branch point -> last compartment of the parent
            b, k = branch_of(snk)
            assert k == st["nc"][b] - 1, "type-1 edge does not end in a last compartment"
            cbp[b] = src - ncomp
            par[src - ncomp] = b
        elif t == 2:    # branch point -> first compartment of a child
            b, k = branch_of(snk)
            assert k == 0, "type-2 edge does not end in a first compartment"
            pbp[b] = src - ncomp
            kids.setdefault(src - ncomp, []).append(b)
    nbp = max(list(par) + list(kids) + [-1]) + 1
    return {"nbp": nbp, "pbp": [pbp.get(b) for b in range(nb)], "cbp": [cbp.get(b) for b in range(nb)],
            "kids": [kids.get(j, []) for j in range(nbp)], "par": [par.get(j) for j in range(nbp)]}


def coq_opt(x):
    return "None" if x is None else f"(Some {int(x)}%nat)"


def coq_check_expr(st):
    tp = topology(st)
    pb = "[" + "; ".join(coq_opt(x) for x in tp["pbp"]) + "]"
    cb = "[" + "; ".join(coq_opt(x) for x in tp["cbp"]) + "]"
    kd = "[" + "; ".join(nat_list(k) for k in tp["kids"]) + "]"
    pr = nat_list([p if p is not None else 0 for p in tp["par"]])
    return f"check_idx {st['nb']}%nat {tp['nbp']}%nat {pb} {cb} {kd} {pr} {coq_layout_args(st)}"


def coq_mstore_expr(st, g, v, vt, ct, dt):
    """is the assembled store M-matrix-like (Proofs/HinesArrPositive.v)?"""
    tp = topology(st)
    pb = "[" + "; ".join(coq_opt(x) for x in tp["pbp"]) + "]"
    cb = "[" + "; ".join(coq_opt(x) for x in tp["cbp"]) + "]"
    kd = "[" + "; ".join(nat_list(k) for k in tp["kids"]) + "]"
    pr = nat_list([p if p is not None else 0 for p in tp["par"]])
    es = "[" + "; ".join(f"({a}%nat, {b}%nat, {t}%nat, {q(x)})" for (a, b, t), x in zip(st["edges"], g)) + "]"
    return (f"arr_mstore_okQ {st['nb']}%nat {tp['nbp']}%nat {pb} {cb} {kd} {pr} {nat_list(st['cs'])} {nat_list(st['pl'])} {nat_list(st['nc'])} "
            f"{nat_list(st['mask'])} {st['ncomp']}%nat {es} {q_list(v)} {q_list(vt)} {q_list(ct)} {q(dt)} "
            f"{nat_list(st['group'])} {nat_list(st['child_inds'])} {nat_list(st['par_inds'])}")


def coq_asmstruct_expr(st):
    """are the index lists handed to the assembly consistent with layout and topology (Model/AsmStruct.v)?
    Integers only: with theorem C01_implicit_step_total this covers ALL positive parameter values."""
    tp = topology(st)
    pb = "[" + "; ".join(coq_opt(x) for x in tp["pbp"]) + "]"
    cb = "[" + "; ".join(coq_opt(x) for x in tp["cbp"]) + "]"
    kd = "[" + "; ".join(nat_list(k) for k in tp["kids"]) + "]"
    pr = nat_list([p if p is not None else 0 for p in tp["par"]])
    ts = "[" + "; ".join(f"({a}%nat, {b}%nat, {t}%nat)" for (a, b, t) in st["edges"]) + "]"
    return (f"asm_struct_idx {st['nb']}%nat {tp['nbp']}%nat {pb} {cb} {kd} {pr} {nat_list(st['cs'])} {nat_list(st['pl'])} {nat_list(st['nc'])} "
            f"{nat_list(st['mask'])} {ts} {nat_list(st['group'])} {nat_list(st['child_inds'])} {nat_list(st['par_inds'])}")


def coq_graphstruct_expr(st):
    """the remaining decidable conditions (Model/GraphStruct.v) under which the assembled system is the graph system"""
    tp = topology(st)
    pb = "[" + "; ".join(coq_opt(x) for x in tp["pbp"]) + "]"
    cb = "[" + "; ".join(coq_opt(x) for x in tp["cbp"]) + "]"
    kd = "[" + "; ".join(nat_list(k) for k in tp["kids"]) + "]"
    pr = nat_list([p if p is not None else 0 for p in tp["par"]])
    ts = "[" + "; ".join(f"({a}%nat, {b}%nat, {t}%nat)" for (a, b, t) in st["edges"]) + "]"
    return (f"graph_struct_idx {st['nb']}%nat {tp['nbp']}%nat {pb} {cb} {kd} {pr} {nat_list(st['cs'])} {nat_list(st['pl'])} {nat_list(st['nc'])} "
            f"{nat_list(st['mask'])} {st['ncomp']}%nat {ts} {nat_list(st['group'])} {nat_list(st['child_inds'])} {nat_list(st['par_inds'])}")


def run_real(m, st, g, v, vt, ct, dt, solver):
    import numpy as np
    import jax.numpy as jnp
    from jaxley.solver_voltage import step_voltage_implicit_with_jaxley_spsolve as f
    ce = m._comp_edges
    out = f(voltages=jnp.asarray([float(x) for x in v]), voltage_terms=jnp.asarray([float(x) for x in vt]),
            constant_terms=jnp.asarray([float(x) for x in ct]), axial_conductances=jnp.asarray([float(x) for x in g]),
            internal_node_inds=m._internal_node_inds, sinks=np.asarray(ce["sink"].to_list()), sources=np.asarray(ce["source"].to_list()),
            types=np.asarray(ce["type"].to_list()), ncomp_per_branch=m.ncomp_per_branch, par_inds=m._par_inds, child_inds=m._child_inds,
            nbranches=m.total_nbranches, solver=solver, delta_t=float(dt), idx=m._solve_indexer, debug_states=None)
    return [float(x) for x in np.asarray(out)]


def random_values(rng, st):
    """dyadic, symmetric-pair-consistent conductances are NOT required by the solver: every
    entry is drawn independently (the solver must be exact for any values)."""
    dy = lambda lo, hi, den=16: Fr(rng.randint(int(lo * den), int(hi * den)), den)
    g = [dy(0.25, 4) for _ in st["edges"]]
    n = st["ncomp"]
    return g, [dy(-80, -40, 4) for _ in range(n)], [dy(0, 2) for _ in range(n)], [dy(-20, 20, 4) for _ in range(n)], rng.choice([Fr(1, 40), Fr(1, 4), Fr(1), Fr(16)])
