#!/bin/bash
# tools/seedlanes.sh <nlanes> [seed names...]   (default: every stored seed)
# Re-runs stored seeded changes in parallel lanes WITHOUT touching /repo or /verif: every lane gets its own copy of
# /verif and its own git worktree of /repo under /tmp/lanes (JAXLEY_REPO points vcheck.py at it); the copies are
# removed afterwards.  One line per seed: <name> [Cxx]: exit=<rc> <violation lines>.
N=${1:-4}; shift
cd "$(dirname "$0")/.."
ROOT=$(pwd)
names=("$@"); if [ ${#names[@]} -eq 0 ]; then names=($(ls seeded)); fi
rm -rf /tmp/lanes; mkdir -p /tmp/lanes
for k in $(seq 0 $((N-1))); do : > /tmp/lanes/list_$k; done
i=0; for n in "${names[@]}"; do echo "$n" >> /tmp/lanes/list_$((i % N)); i=$((i+1)); done
lane() {
  k=$1
  rsync -a --exclude .git --exclude replay --exclude '.work/*' "$ROOT/" /tmp/lanes/verif_$k/
  mkdir -p /tmp/lanes/verif_$k/.work
  git -C /repo worktree add --detach /tmp/lanes/repo_$k HEAD >/dev/null 2>&1
  while read n; do
    d="$ROOT/seeded/$n"
    p=$(python3 -c "import json;m=json.load(open('$d/meta.json'));print(list(m.get('detected_by',{'${n%%-*}':1}))[0])")
    if ! git -C /tmp/lanes/repo_$k apply "$d/patch.diff" 2>/dev/null; then echo "$n [$p]: PATCH-DOES-NOT-APPLY"; continue; fi
    JAXLEY_REPO=/tmp/lanes/repo_$k /tmp/lanes/verif_$k/tools/vcheck.py $p > /tmp/lanes/out_$k.log 2>&1; rc=$?
    echo "$n [$p]: exit=$rc violations_lines=$(grep -c '^VIOLATION' /tmp/lanes/out_$k.log) $(grep -E '^C[0-9]+ tier' /tmp/lanes/out_$k.log | cut -c1-120)"
    git -C /tmp/lanes/repo_$k checkout -- . ; git -C /tmp/lanes/repo_$k clean -fdq
  done < /tmp/lanes/list_$k
  git -C /repo worktree remove --force /tmp/lanes/repo_$k >/dev/null 2>&1
  rm -rf /tmp/lanes/verif_$k
}
for k in $(seq 0 $((N-1))); do lane $k > /tmp/lanes/result_$k.log 2>&1 & done
wait
cat /tmp/lanes/result_*.log
