"""Evaluate expressions of the Coq models with vm_compute (one coqc call per shard)."""
import os
import re
import subprocess
import tempfile

HERE = os.path.dirname(os.path.abspath(__file__))
COQ = os.path.join(HERE, "..", "coq")
WORK = os.path.join(HERE, "..", ".work")


def _run_shard(requires, prelude, part, start, timeout):
    fd, path = tempfile.mkstemp(prefix="cases_", suffix=".v", dir=WORK)
    name = os.path.basename(path)[:-2]
    with os.fdopen(fd, "w") as f:
        f.write("From Coq Require Import List ZArith QArith Bool String.\nImport ListNotations.\n")
        for r in requires:
            f.write(f"From JV Require Import {r}.\n")
        f.write("Set Printing Width 1000000.\nSet Printing Depth 1000000.\n")
        f.write(prelude + "\n")
        for i, e in enumerate(part):
            f.write(f'Goal True. let x := eval vm_compute in ({e}) in idtac "@@{start + i}@@" x. exact I. Qed.\n')
    try:
        p = subprocess.run(["timeout", str(timeout), "coqc", "-R", COQ, "JV", path], cwd=WORK,
                           stdout=subprocess.PIPE, stderr=subprocess.STDOUT, text=True)
    finally:
        for ext in (".v", ".vo", ".glob", ".vok", ".vos"):
            q = os.path.join(WORK, name + ext)
            if os.path.exists(q):
                os.remove(q)
        q = os.path.join(WORK, "." + name + ".aux")
        if os.path.exists(q):
            os.remove(q)
    if p.returncode != 0:
        raise RuntimeError("coqc failed on generated cases:\n" + p.stdout[-2000:])
    res = {}
    for m in re.finditer(r"@@(\d+)@@ (.*)", p.stdout):
        res[int(m.group(1))] = m.group(2).strip()
    return res


def coq_eval(requires, exprs, prelude="", timeout=900, shard=None, jobs=16):
    """requires: module names under JV (e.g. ['Connect']); exprs: Coq terms.
    Returns the printed normal forms (strings), in order.  Shards run in parallel."""
    from concurrent.futures import ThreadPoolExecutor
    os.makedirs(WORK, exist_ok=True)
    if not exprs:
        return []
    if shard is None:
        shard = max(1, min(400, -(-len(exprs) // jobs)))
    parts = [(s, exprs[s:s + shard]) for s in range(0, len(exprs), shard)]
    res = {}
    with ThreadPoolExecutor(max_workers=jobs) as ex:
        for r in ex.map(lambda sp: _run_shard(requires, prelude, sp[1], sp[0], timeout), parts):
            res.update(r)
    return [res[i] for i in range(len(exprs))]


def coq_list(xs):
    return "[" + "; ".join(str(x) for x in xs) + "]"


def parse_nat_pairs(s):
    """'[(0, 2); (0, 3)]' -> [(0,2),(0,3)]"""
    return [tuple(int(t) for t in m.groups()) for m in re.finditer(r"\((\d+),\s*(\d+)\)", s)]
