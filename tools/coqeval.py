"""Evaluate expressions of the Coq models with vm_compute (one coqc call per shard)."""
import os
import re
import subprocess
import tempfile

HERE = os.path.dirname(os.path.abspath(__file__))
COQ = os.path.join(HERE, "..", "coq")
WORK = os.path.join(HERE, "..", ".work")


def coq_eval(requires, exprs, prelude="", timeout=600, shard=400):
    """requires: module names under JV (e.g. ['Connect']); exprs: Coq terms.
    Returns the printed normal forms (strings), in order."""
    os.makedirs(WORK, exist_ok=True)
    out = []
    for s in range(0, len(exprs), shard):
        part = exprs[s:s + shard]
        fd, path = tempfile.mkstemp(prefix="cases_", suffix=".v", dir=WORK)
        name = os.path.basename(path)[:-2]
        with os.fdopen(fd, "w") as f:
            f.write("From Coq Require Import List ZArith QArith Bool String.\nImport ListNotations.\n")
            for r in requires:
                f.write(f"From JV Require Import {r}.\n")
            f.write("Set Printing Width 1000000.\nSet Printing Depth 1000000.\n")
            f.write(prelude + "\n")
            for i, e in enumerate(part):
                f.write(f'Goal True. let x := eval vm_compute in ({e}) in idtac "@@{s + i}@@" x. exact I. Qed.\n')
        try:
            p = subprocess.run(["timeout", str(timeout), "coqc", "-R", COQ, "JV", path], cwd=WORK,
                               stdout=subprocess.PIPE, stderr=subprocess.STDOUT, text=True)
        finally:
            for ext in (".v", ".vo", ".glob", ".vok", ".vos"):
                q = os.path.join(WORK, name + ext)
                if os.path.exists(q):
                    os.remove(q)
            q = os.path.join(WORK, "." + name + ".aux")
            if os.path.exists(q):
                os.remove(q)
        if p.returncode != 0:
            raise RuntimeError("coqc failed on generated cases:\n" + p.stdout[-2000:])
        res = {}
        for m in re.finditer(r"@@(\d+)@@ (.*)", p.stdout):
            res[int(m.group(1))] = m.group(2).strip()
        for i in range(len(part)):
            out.append(res[s + i])
    return out


def coq_list(xs):
    return "[" + "; ".join(str(x) for x in xs) + "]"


def parse_nat_pairs(s):
    """'[(0, 2); (0, 3)]' -> [(0,2),(0,3)]"""
    return [tuple(int(t) for t in m.groups()) for m in re.finditer(r"\((\d+),\s*(\d+)\)", s)]
