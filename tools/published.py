"""Python transcription of Spec/Published.v (same equations, float64)."""
import math

exp = math.exp


def vtrap(x, y):
    if abs(x / y) < 1e-6:
        return y * (1 - x / y / 2)
    return x / (exp(x / y) - 1)


def efun(x):
    """x/(exp x - 1), continued by its limit (1 - x/2 + x^2/12) next to 0."""
    if abs(x) < 1e-5:
        return 1 - x / 2 + x * x / 12
    return x / math.expm1(x)


RATES = {
    ("HH", "m"): lambda v, p: (0.1 * vtrap(-(v + 40), 10), 4 * exp(-(v + 65) / 18)),
    ("HH", "h"): lambda v, p: (0.07 * exp(-(v + 65) / 20), 1 / (exp(-(v + 35) / 10) + 1)),
    ("HH", "n"): lambda v, p: (0.01 * vtrap(-(v + 55), 10), 0.125 * exp(-(v + 65) / 80)),
    ("Na", "m"): lambda v, p: (0.32 * 4 * efun(-(v - p["vt"] - 13) / 4), 0.28 * 5 * efun((v - p["vt"] - 40) / 5)),
    ("Na", "h"): lambda v, p: (0.128 * exp(-(v - p["vt"] - 17) / 18), 4 / (1 + exp(-(v - p["vt"] - 40) / 5))),
    ("K", "n"): lambda v, p: (0.032 * 5 * efun(-(v - p["vt"] - 15) / 5), 0.5 * exp(-(v - p["vt"] - 10) / 40)),
    ("Km", "p"): lambda v, p: (1 / (1 + exp(-(v + 35) / 10)), p["taumax"] / (3.3 * exp((v + 35) / 20) + exp(-(v + 35) / 20))),
    ("CaL", "q"): lambda v, p: (0.055 * 3.8 * efun((-27 - v) / 3.8), 0.94 * exp((-75 - v) / 17)),
    ("CaL", "r"): lambda v, p: (0.000457 * exp((-13 - v) / 50), 0.0065 / (exp((-15 - v) / 28) + 1)),
    ("CaT", "u"): lambda v, p: (1 / (1 + exp((v + p["vx"] + 81) / 4)),
                                30.8 + (211.4 + exp((v + p["vx"] + 113.2) / 5)) / (3.7 * (1 + exp((v + p["vx"] + 84) / 3.2)))),
}

CURRENTS = {
    "HH": lambda s, v, p: p["gNa"] * s["m"] ** 3 * s["h"] * (v - p["eNa"]) + p["gK"] * s["n"] ** 4 * (v - p["eK"]) + p["gLeak"] * (v - p["eLeak"]),
    "Leak": lambda s, v, p: p["gLeak"] * (v - p["eLeak"]),
    "Na": lambda s, v, p: p["gNa"] * s["m"] ** 3 * s["h"] * (v - p["eNa"]),
    "K": lambda s, v, p: p["gK"] * s["n"] ** 4 * (v - p["eK"]),
    "Km": lambda s, v, p: p["gKm"] * s["p"] * (v - p["eK"]),
    "CaL": lambda s, v, p: p["gCaL"] * s["q"] ** 2 * s["r"] * (v - p["eCa"]),
    "CaT": lambda s, v, p: p["gCaT"] * (1 / (1 + exp(-(v + p["vx"] + 57) / 6.2))) ** 2 * s["u"] * (v - p["eCa"]),
}

# documented defaults (HH: NEURON hh.mod; Pospischil: docstrings/tutorial of the package)
DEFAULTS = {
    "HH": ({"gNa": 0.12, "gK": 0.036, "gLeak": 0.0003, "eNa": 50.0, "eK": -77.0, "eLeak": -54.3}, {"m": 0.2, "h": 0.2, "n": 0.2}),
    "Leak": ({"gLeak": 1e-4, "eLeak": -70.0}, {}),
    "Na": ({"gNa": 50e-3, "eNa": 50.0, "vt": -60.0}, {"m": 0.2, "h": 0.2}),
    "K": ({"gK": 5e-3, "eK": -90.0, "vt": -60.0}, {"n": 0.2}),
    "Km": ({"gKm": 0.004e-3, "taumax": 4000.0, "eK": -90.0}, {"p": 0.2}),
    "CaL": ({"gCaL": 0.1e-3, "eCa": 120.0}, {"q": 0.2, "r": 0.2}),
    "CaT": ({"gCaT": 0.4e-4, "vx": 2.0, "eCa": 120.0}, {"u": 0.2}),
}
GLOBAL_KEYS = {"eNa", "eK", "eCa", "vt"}
SYN_DEFAULTS = {
    "IonotropicSynapse": ({"gS": 1e-4, "e_syn": 0.0, "k_minus": 0.025}, {"s": 0.2}),
    "TestSynapse": ({"gC": 1e-4}, {"c": 0.2}),
    "TanhRateSynapse": ({"gS": 1e-4, "x_offset": -70.0, "slope": 1.0}, {}),
}


def syn_sinf(vpre):
    return 1 / (1 + exp((-35 - vpre) / 10))
