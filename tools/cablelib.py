"""Exact (Fraction) reference for the discretised cable equation, assembled from the
PHYSICAL quantities (absolute axial resistances, membrane areas, Kirchhoff nodes) —
independent of jaxley's per-area formulation — plus helpers to run the Coq cable model on
the same inputs (tools/coqeval.py)."""
import math
from fractions import Fraction as Fr

PI = Fr(math.pi)       # the double nearest to pi, exactly: what the code multiplies with


def fr(x):
    return Fr(x) if not isinstance(x, Fr) else x


class CellSpec:
    """parents: sorted parent vector (root -1); counts per branch; per-compartment lists
    r, l, ra, cm (um, um, ohm cm, uF/cm2), g (S/cm2), e (mV), v (mV), i (nA)."""

    def __init__(self, parents, counts, r, l, ra, cm, g, e, v, i=None):
        self.parents, self.counts = list(parents), list(counts)
        self.r, self.l, self.ra, self.cm = map(lambda a: [fr(x) for x in a], (r, l, ra, cm))
        self.g, self.e, self.v = map(lambda a: [fr(x) for x in a], (g, e, v))
        n = sum(counts)
        self.i = [fr(x) for x in (i if i is not None else [0] * n)]
        self.n = n
        self.offset = [sum(counts[:b]) for b in range(len(counts))]

    def first(self, b):
        return self.offset[b]

    def last(self, b):
        return self.offset[b] + self.counts[b] - 1

    # ---- physical quantities (SI-free: um, ohm cm, ...) with jaxley's unit factors
    def area(self, k):                      # um^2
        return 2 * PI * self.r[k] * self.l[k]

    def half_res(self, k):                  # ohm cm / um  (axial resistance of half a compartment)
        return self.ra[k] * (self.l[k] / 2) / (PI * self.r[k] ** 2)

    def edges(self):
        """(a, b, G) with nodes = compartments 0..n-1 and branch points ('bp', p);
        G = absolute axial conductance between the two node centres (S um / cm ... common unit)."""
        out = []
        for b, c in enumerate(self.counts):
            for k in range(c - 1):
                a, bb = self.first(b) + k, self.first(b) + k + 1
                out.append((a, bb, 1 / (self.half_res(a) + self.half_res(bb))))
        kids = {}
        for b, p in enumerate(self.parents):
            if b > 0:
                kids.setdefault(p, []).append(b)
        for p, ks in kids.items():
            out.append((self.last(p), ("bp", p), 1 / self.half_res(self.last(p))))
            for k in ks:
                out.append((self.first(k), ("bp", p), 1 / self.half_res(self.first(k))))
        return out

    def system(self, dt):
        """Backward-Euler system of the physical model, branch points eliminated exactly
        (a branch point's voltage is the conductance-weighted mean of its neighbours).
        Row k (per unit capacitance C_k = cm_k * A_k):
           v'_k + dt/C_k * ( sum_j G_kj (v'_k - v'_j) + A_k g_k 1000 (v'_k - e_k) ) = v_k + dt/C_k * 1e5... I_k
        Unit factors as documented by jaxley: axial term 1e7, membrane 1000, stimulus 1e5."""
        n = self.n
        dt = fr(dt)
        A = [[Fr(0)] * n for _ in range(n)]
        rhs = [Fr(0)] * n
        G = {}            # symmetric comp-comp conductances after eliminating branch points
        bp = {}
        for a, b, g in self.edges():
            if isinstance(b, tuple):
                bp.setdefault(b, []).append((a, g))
            else:
                G[(a, b)] = G.get((a, b), 0) + g
                G[(b, a)] = G.get((b, a), 0) + g
        for node, lst in bp.items():
            tot = sum(g for _, g in lst)
            for a, ga in lst:
                for b, gb in lst:
                    if a != b:
                        G[(a, b)] = G.get((a, b), 0) + ga * gb / tot     # star -> mesh
        for k in range(n):
            C = self.cm[k] * self.area(k)
            A[k][k] += 1 + dt * self.g[k] * 1000 / self.cm[k]
            rhs[k] = self.v[k] + dt * (self.g[k] * self.e[k] * 1000 / self.cm[k] + self.i[k] * 100000 / C)
        for (a, b), g in G.items():
            C = self.cm[a] * self.area(a)
            A[a][a] += dt * g * 10 ** 7 / C
            A[a][b] -= dt * g * 10 ** 7 / C
        return A, rhs

    def solve(self, dt):
        A, rhs = self.system(dt)
        return gauss(A, rhs)

    def step(self, dt, solver):
        if solver == "bwd_euler":
            return self.solve(dt)
        if solver == "crank_nicolson":
            half = self.solve(fr(dt) / 2)
            return [2 * h - v for h, v in zip(half, self.v)]
        if solver == "fwd_euler":
            A, rhs = self.system(dt)       # A = I + dt*M, rhs = v + dt*c  =>  v' = v + dt*(c - M v)
            out = []
            for k in range(self.n):
                mv = sum((A[k][j] - (1 if j == k else 0)) * self.v[j] for j in range(self.n))
                out.append(self.v[k] + (rhs[k] - self.v[k]) - mv)
            return out
        raise ValueError(solver)

    def backward_error(self, dt, x, solver="bwd_euler"):
        """componentwise backward error max_i |(Ax-b)_i| / (sum_j |A_ij||x_j| + |b_i|)."""
        if solver == "crank_nicolson":
            x = [(fr(a) + v) / 2 for a, v in zip(x, self.v)]
            dt = fr(dt) / 2
        A, rhs = self.system(dt)
        worst = Fr(0)
        for k in range(self.n):
            res = sum(A[k][j] * fr(x[j]) for j in range(self.n)) - rhs[k]
            den = sum(abs(A[k][j]) * abs(fr(x[j])) for j in range(self.n)) + abs(rhs[k])
            worst = max(worst, abs(res) / den)
        return float(worst)

    # ---- inputs for the Coq model (Model/Cable.v): per-compartment vt, ct as the code forms them
    def coq_branches(self):
        out = []
        for b, c in enumerate(self.counts):
            comps = []
            for k in range(self.first(b), self.first(b) + c):
                vt = self.g[k] * 1000 / self.cm[k]
                ct = (self.g[k] * self.e[k] * 1000 + self.i[k] * 100000 / self.area(k)) / self.cm[k]
                comps.append("mk " + " ".join(q(x) for x in (self.r[k], self.l[k], self.ra[k], self.cm[k], self.v[k], vt, ct)))
            out.append("[" + "; ".join(comps) + "]")
        return "[" + "; ".join(out) + "]"

    def coq_parents(self):
        return "[" + "; ".join(f"{max(p, 0)}%nat" for p in self.parents) + "]"


def q(x):
    x = fr(x)
    return f"({x.numerator} # {x.denominator})"


def gauss(A, b):
    n = len(b)
    A = [row[:] + [b[i]] for i, row in enumerate(A)]
    for c in range(n):
        p = next(r for r in range(c, n) if A[r][c] != 0)
        A[c], A[p] = A[p], A[c]
        for r in range(c + 1, n):
            if A[r][c] != 0:
                f = A[r][c] / A[c][c]
                for k in range(c, n + 1):
                    A[r][k] -= f * A[c][k]
    x = [Fr(0)] * n
    for r in reversed(range(n)):
        x[r] = (A[r][n] - sum(A[r][k] * x[k] for k in range(r + 1, n))) / A[r][r]
    return x


_QTOK = r"\(?\s*(-?0x[0-9a-fA-F]+(?:\.[0-9a-fA-F]+)?(?:[pP][+-]?\d+)?|-?\d+\.\d+(?:[eE][+-]?\d+)?|-?\d+(?:\s*#\s*\d+)?)\s*\)?(?:%xQ|%Q)?"


def parse_q_token(tok):
    """one rational as Coq 8.16 prints it: 'a # b', 'a', a decimal 'a.b' (denominator a power of 10, suffix %Q when
    the scope is closed) or a HEXADECIMAL '0xa.b' / '0xa.bp-3' (denominator a power of 16, suffix %xQ)"""
    t = tok.strip().strip("()").replace("%xQ", "").replace("%Q", "").strip().strip("()").strip()
    neg = t.startswith("-")
    if neg:
        t = t[1:].strip()
    if t.lower().startswith("0x"):
        body, _, exp = t[2:].lower().partition("p")
        ip, _, fp = body.partition(".")
        val = Fr(int(ip or "0", 16)) + (Fr(int(fp, 16), 16 ** len(fp)) if fp else 0)
        if exp:
            val *= Fr(2) ** int(exp)
    elif "#" in t:
        a, b = t.split("#")
        val = Fr(int(a), int(b))
    elif "." in t or "e" in t.lower():
        mant, _, exp = t.lower().partition("e")
        ip, _, fp = mant.partition(".")
        val = Fr(int(ip or "0")) + (Fr(int(fp), 10 ** len(fp)) if fp else 0)
        if exp:
            val *= Fr(10) ** int(exp)
    else:
        val = Fr(int(t))
    return -val if neg else val


def parse_q_pairs(s):
    """'[(0%nat, -16470070 # 241001); (1%nat, 3); (2%nat, 0x5.b%xQ)]' -> {0: Fraction, 1: Fraction, 2: Fraction}"""
    import re
    out = {}
    for m in re.finditer(r"\((\d+)%nat,\s*" + _QTOK + r"\)", s):
        out[int(m.group(1))] = parse_q_token(m.group(2))
    return out


def parse_q_list(s):
    body = s.strip().strip("[]").strip()
    return [parse_q_token(t) for t in body.split(";")] if body else []
