#!/usr/bin/env python3
"""Regenerate MANIFEST.json from the table below (keeps it valid at all times)."""
import json, os
ROOT = os.path.dirname(os.path.dirname(os.path.abspath(__file__)))
props = [json.loads(l) for l in open(os.path.join(ROOT, "properties.jsonl"))]

G_NOTE = ("Trusted: Coq 8.16.1 kernel; the Reals axioms (sig_not_dec, sig_forall_dec, functional_extensionality_dep) and classic; "
          "the jaxpr->Coq translator tools/jaxpr2coq.py (its IR is re-validated against the real functions on every run); "
          "jax.make_jaxpr as a faithful account of the traced computation; float64 rounding is not formalised (bounded by the direct predicate on the implementation).")

M_NOTE = ("Trusted: Coq 8.16.1 kernel (vm_compute for case evaluation); the hand-written model is tied to the code by sampled agreement only: the for-all is proved of the model and tested of the code; "
          "NumPy/pandas/JAX semantics are modelled, not verified.")

CLAIMS = {
 "C03": dict(engine="coq-layer-g", tech="Coq proof over definitions regenerated from the code (jaxpr translation) + direct predicate on the implementation",
   text="Full for the real-number semantics: for every gate of HH, Na, K, Km, CaL, CaT, IonotropicSynapse and TestSynapse, Coq theorems (all real v, all dt>0, all x in [0,1], all parameters; taumax>0, k_minus>0) state definedness of every division, the closed-form ODE solution, 0<=update<=1, movement toward and never past the steady state. float64 behaviour (every sampled double incl. singular voltages +-ulps) is tested, not proved.",
   note=G_NOTE, ref="DESIGN.md §5 C03"),
 "C04": dict(engine="coq-layer-g", tech="Coq proof of equality with a transcription of the published equations, over definitions regenerated from the code",
   text="Full on the unclipped region: every rate function, steady state, time constant, current and default of HH / Pospischil channels / IonotropicSynapse is proved equal (in R) to Spec/Published.v, with explicit hypotheses where save_exp clips or the singularity guard is active; renamed mechanisms are proved identical. CaT tau_u beyond the clip is a machine-checked refutation (known finding F15).",
   note=G_NOTE + " Spec/Published.v is my transcription of the cited papers (not checkable offline). Interval (PrimFloat/Uint63 axioms) is used for the F15 witness only.", ref="DESIGN.md §5 C04"),
 "C11": dict(engine="coq-layer-m", tech="Coq proof about an executable model of view selection + exact correspondence with the implementation on enumerated selection chains",
   text="Full for the model: Coq theorems (axiom-free) that one selection keeps exactly the rows of the current view whose local (dense rank within the parent, relative to the current view) or global index is requested, that chains only narrow, that synapses are in view iff both ends are, that local indices are strictly monotone dense ranks (0..k-1) and equal the global ones on a full module. The implementation is compared exactly (rows, edges, local index columns, acceptance/rejection) with the model on random chains over all index forms and both scopes on irregular fixtures; [] and iteration vs method form, loc(), and confinement of writes through views are direct predicates.",
   note=M_NOTE, ref="DESIGN.md §5 C11"),
 "C12": dict(engine="coq-layer-m", tech="Coq proof (concatenation keeps rows under contiguous indices; sibling permutation leaves pivots unchanged and permutes the solution) + direct predicates on assembled tables and simulations",
   text="Full for the model: Coq theorems that concatenating constituent tables keeps every row at (offset + j) with contiguous indices, and that listing sibling subtrees in another order leaves the parent's reduced row unchanged and only permutes the computed unknowns (any tree system over R). The code is tied by row-by-row comparison of Branch/Cell/Network tables with heterogeneous constituents (channel union, absent channels stay absent, shared vt/eK), by networks without synapses vs cells alone on every accepting backend, one-branch / one-compartment modules, and by all sorted sibling permutations of small trees.",
   note=M_NOTE, ref="DESIGN.md §5 C12"),
 "C13": dict(engine="coq-layer-m", tech="Coq proof about an executable model of set_ncomp's row replacement and group remapping + correspondence / direct predicates on the implementation",
   text="Full for the model: Coq theorems (axiom-free) that replacing the rows of one branch leaves all rows before it in place and all rows behind it unchanged but shifted, that named groups keep exactly their branch membership (old behaviour refuted), and that the total length n*(L/n) is preserved. The code is tied by sequences of set_ncomp calls on hand-built cells (channels, groups, critical shapes) compared with direct construction (tables, connectivity, groups, simulation on every accepting backend), by running the observed group labels through the model, and by SWC cells compared branch by branch with read_swc(ncomp=n).",
   note=M_NOTE, ref="DESIGN.md §5 C13"),
 "C14": dict(engine="coq-layer-g", tech="Coq proof over definitions regenerated from the code (jaxpr translation) + direct predicate on the implementation",
   text="Full: for every gate of every built-in channel, Coq theorems over the reals (all v, all dt>0, all parameters; taumax>0) state update_states(init_state(v),dt,v)=init_state(v) about definitions regenerated from /repo on every run; renamed channels are proved identical. Module.init_states' row selection is tied by correspondence on sampled modules with partial insertions.",
   note=G_NOTE, ref="DESIGN.md §5 C14"),
 "C16": dict(engine="coq-layer-m", tech="Coq-verified checker for the reader's sectioning/connectivity (soundness proved, run on the reader's output) + interpolation lemmas + independent declarative reference",
   text="Partial: proved are (a) the soundness of a checker that accepts a sectioning only if every section is an unbranched same-type parent-child path that cannot be extended and every traced point lies in exactly one section, and that branch connectivity is the file's parent-child connectivity; (b) that linear interpolation is exact at traced points and stays between neighbouring traced radii, that compartment centres lie inside the branch and that total length is independent of ncomp. The reader's quirky sectioning loop itself is not modelled: its output is run through the checker and compared (sections, types, lengths with the documented conventions, radii at centres, min_radius, groups, ncomp independence, max_branch_len) with an independent reference on random depth-first trees.",
   note=M_NOTE + " tools/swcref.py (the declarative reference) is trusted. Known finding F25 (max_branch_len on coarse tracings raises).", ref="DESIGN.md §5 C16"),
 "C17": dict(engine="coq-layer-g", tech="Coq proof over definitions regenerated from the code (jaxpr translation) + direct predicate on the implementation",
   text="Full for the real-number semantics: bounds, strict monotonicity and both round trips of sigmoid, softplus, negative softplus, affine, masked and chained transforms for ALL real x and all lower<upper; chains of any length and ParamTransform (as map2 over leaves) as list theorems. float64 round trips are tested where the inverse is representable.",
   note=G_NOTE, ref="DESIGN.md §5 C17"),
 "C01": dict(engine="coq-layer-m", tech="Coq proof (soundness, uniqueness, pivot positivity of the tree elimination; dominance of the assembled cable system) + correspondence of every backend with the exact model and an independent physical reference",
   text="Full for the model: Coq theorems over the reals, for EVERY sorted branch tree, every compartment-count vector >= 1, all positive geometric/electrical parameters and every dt > 0: the assembled backward-Euler system (compartments + Kirchhoff branch points) is dominant, the Hines elimination meets no zero pivot, its output satisfies every equation and is the only vector that does; the model's coefficients are proved equal to the conductance formulas traced from the code, and those to the physical per-area axial conductances. The code (level-ordered padded arrays, three backends, CN/fwd schemes, networks, refusals) is tied to the model by sampled agreement in exact rationals plus an exact backward-error predicate against an independently assembled physical system.",
   note=M_NOTE + " The array-level refinement (padding, level order, vmap) is not proved; jax.sparse's spsolve and tridiax.stone are only compared. Reals axioms + classic under the R theorems.", ref="DESIGN.md §5 C01"),
 "C02": dict(engine="coq-layer-m", tech="Coq proof (maximum principle, self-adjointness => reciprocity and charge balance, symmetrisability of the assembled cable system, traced-formula identities) + exact evaluation of the identities on the implementation",
   text="Full for the model: for every sorted tree, all positive parameters and every dt > 0, Coq proves that the backward-Euler step of a passive unstimulated cell keeps every voltage (branch points included) between the extremes of previous voltages and reversal potentials, that uniform stays uniform, and that the assembled system is symmetrisable (weights cm*r*l per compartment, one constant per branch point), from which reciprocity and charge balance are proved for arbitrary tree systems; the traced conductance formulas are proved reciprocal / proportional and the stimulus conversion area-exact. The implementation's outputs (3 backends, dt up to 1e9) are checked against the four identities in exact rational arithmetic.",
   note=M_NOTE + " The specialisation of the generic charge-balance/reciprocity statements to sums over compartments is evaluated on the implementation, not restated as a separate theorem.", ref="DESIGN.md §5 C02"),
 "C05": dict(engine="coq-layer-g", tech="Coq proofs of differentiability / derivative formulas of the traced building blocks, gradient-safety of the guards, exact selection of trainables, checkpoint invariance + jax.grad vs converged central finite differences on the implementation",
   text="Partial: Coq proves (over definitions regenerated from the code) that both branches of the singularity guards are defined for every input (no NaN can reach reverse-mode AD through the unused branch), derivative formulas of the gate updates in the state and of the clipped exponential away from the clip, differentiability of the axial conductances in all geometric/electrical parameters on positive parameters, that trainables enter the parameter arrays as an exact selection, and that nested checkpointing computes the same function. That jax.grad of the whole traced simulation equals the derivative is NOT proved (JAX's AD is trusted); it is decided by comparing jax.grad with central finite differences (float64, step sweep) over trainable keys, sharing patterns, solvers, backends, checkpoint layouts, data_stimulate/data_set inputs and synapse parameters/states.",
   note=G_NOTE + " JAX AD and jax.checkpoint are trusted. Coquelicot (classic) under the derivative theorems.", ref="DESIGN.md §5 C05"),
 "C06": dict(engine="coq-layer-m", tech="Coq proof about an executable model of nested_checkpoint_scan/integrate + direct predicate on the implementation",
   text="Partial: proved (axiom-free, any nesting depth, any lengths whose product covers the run) that nested_checkpoint_scan equals lax.scan and that integrate's recordings do not depend on checkpoint_lengths or on the zero padding. jit/vmap equivalence, bit-identical repetition and purity of integrate (deep snapshot of the module) are decided by the direct predicate on sampled models: they live in XLA/JAX and CPython object identity, which no Coq model of this code can exhibit.",
   note=M_NOTE + " Trusted: XLA/jit/vmap preserve the semantics of a pure traced function; jax.checkpoint is the identity.", ref="DESIGN.md §5 C06"),
 "C07": dict(engine="coq-layer-m", tech="Coq proof about an executable model of integrate's time loop + direct predicate on the implementation",
   text="Full for the model: proved (axiom-free, all splits, all layouts) that n1+n2 steps = n1 steps then n2 steps from the returned state, that manual stepping equals integrate, that column k is the state after k steps, and that the returned state is the last column's state exactly when prod(checkpoint_lengths) = steps; the padded case is a machine-checked refutation (known finding F6). Tied to the code by all splits / manual stepping / return_states on sampled models.",
   note=M_NOTE, ref="DESIGN.md §5 C07"),
 "C08": dict(engine="coq-layer-m", tech="Coq proof about executable models of the recording table, per-type synapse arrays, scatter-add and the time loop + direct predicate on the implementation",
   text="Full for the model: Coq theorems (axiom-free) that record() keeps call order, adds exactly the requested rows once; that a synapse addressed by its global edge index is found at its rank inside the per-type array for ANY interleaving of synapse types (old behaviour refuted); that column k is the state after k steps and input sample k is consumed by step k+1 for any checkpoint layout; that scatter-add sums all and only the stimuli of a compartment; that t_max pads with zeros / truncates. The code is tied by networks with forced type interleavings where every compartment and synapse identifies itself by its initial value, by exact step-by-step references for stimulus timing/charge/additivity/t_max, clamps and the data_* variants.",
   note=M_NOTE, ref="DESIGN.md §5 C08"),
 "C09": dict(engine="coq-layer-m", tech="Coq proof about per-type arrays / scatter-add / permutation invariance and about the traced synapse functions + direct predicate on the implementation",
   text="Full for the model: Coq theorems that per-edge parameters/states reach exactly their synapse in the per-type arrays, that the current into a compartment is the sum over exactly the synapses posting on it, that any permutation of the creation order gives the same sums, and (Layer G, regenerated) that zero conductance means zero current, that the synaptic state reads only the pre voltage, that currents are affine in the post voltage and converted with the area they are given. The code is tied by sampled wirings (autapses, fan-in, interleaved types) against a reference built from the published kinetics folded into the exact cable reference, by permuted creation orders, zero conductances vs cells alone and table-vs-array comparison.",
   note=M_NOTE + " The secant linearisation of the step shifts both pre and post voltage; the reference mirrors that (see DESIGN.md).", ref="DESIGN.md §5 C09"),
 "C10": dict(engine="coq-layer-m", tech="Coq proof about an executable model of the scatter semantics and trainable groups + correspondence/direct predicate on the implementation",
   text="Full for the model: Coq theorems (axiom-free) that scattering a value onto in-range rows changes exactly those rows, that a trainable shared by groups of any (equal or unequal) sizes reaches all and only the rows of its group while every other row keeps its value, and that the padding of shorter groups keeps the set of rows; the old -1 padding stays refuted. The code is tied by comparing set / data_set / make_trainable (arrays and simulations), untouched rows and write_trainables on sampled views, and by running the implementation's own index table through the model.",
   note=M_NOTE, ref="DESIGN.md §5 C10"),
 "C19": dict(engine="coq-layer-m", tech="Coq proof of an invariant over all operation sequences of a state-machine model of the table bookkeeping + invariant evaluation on the real tables after every operation and comparison with a module rebuilt from the tables",
   text="Full for the modelled alphabet: Coq theorem (axiom-free, induction over the operation list) that every accepted sequence of insert / delete_channel / record / delete_recordings / stimulate / delete_stimuli / add_to_group / set_ncomp on arbitrary row sets and any (shared) column ownership keeps 'all references exist' and 'a parameter column is defined exactly on the rows of the channels that own it'; the old delete_channel is refuted. The code is tied by random histories over 14 operations (set, clamp, make_trainable, delete_trainables, init_states, connect included) with the same invariants evaluated on the public tables after every step, insert/delete round trips, view-level deletions on networks, and a final integrate compared with a module rebuilt from the displayed tables only.",
   note=M_NOTE + " Operations outside the modelled alphabet (set, clamp, trainables, init_states, connect) are covered by the direct predicate only.", ref="DESIGN.md §5 C19"),
 "C20": dict(engine="coq-layer-m", tech="Coq proof about an executable model of the index layouts + correspondence with the implementation",
   text="Full for the model: Coq theorems (axiom-free, all population sizes incl. n_pre != n_post, all matrices, every number of drawn connections incl. 0 and 1) that fully_connect yields exactly pre x post once each, sparse_connect is total, connectivity_matrix_connect yields exactly the True entries, and the presynaptic site is the first compartment of its cell. The model is compared with jaxley.connect on enumerated sizes/matrices/seeds on every run; the two repaired defects stay refuted in the model of the old code.",
   note=M_NOTE, ref="DESIGN.md §5 C20"),
}

checks = []
for pid, c in sorted(CLAIMS.items()):
    checks.append({
        "property_id": pid,
        "quick_cmd": f"tools/vcheck.py {pid} --tier quick",
        "thorough_cmd": f"tools/vcheck.py {pid} --tier thorough",
        "evidence_file": f"/verif/evidence/{pid}.json",
        "replay_cmd_template": f"tools/vcheck.py {pid} --replay {{path}}",
        "engine": c["engine"],
        "level_claimed": {"category": "proof", "text": c["text"], "design_ref": c["ref"]},
        "level_note": c["note"],
        "technique": c["tech"],
    })
na = [{"property_id": p["id"], "reason": "check not built yet in this round (work in progress; see DESIGN.md §7)"}
      for p in props if p["id"] not in CLAIMS]
m = {"version": 1,
     "setup_cmd": "tools/setup.sh",
     "hooks": {"guard": "JAXLEY_VERIF", "enable": "no hooks are needed: every observation point is reachable from Python",
               "baseline_off_cmd": "cd /repo && /venv/bin/python -m pytest -ra -q -p no:cacheprovider --timeout=900 --continue-on-collection-errors",
               "source_commits": [], "add_only": True},
     "engines": [{"name": "coq-layer-g", "path": "tools/vcheck.py", "serves_properties": sorted(k for k, c in CLAIMS.items() if c["engine"] == "coq-layer-g"),
                  "kind_free_text": "Coq 8.16 theorems over definitions regenerated from jax.make_jaxpr of the running code; direct-predicate harness on the implementation"},
                 {"name": "coq-layer-m", "path": "tools/vcheck.py", "serves_properties": sorted(k for k, c in CLAIMS.items() if c["engine"] == "coq-layer-m"),
                  "kind_free_text": "hand-written executable Coq models with theorems, tied to the code by a correspondence check (same inputs to model under vm_compute and to the implementation)"}],
     "checks": checks,
     "not_applicable": na,
     "notes": "See DESIGN.md. Repairs of genuine defects are 'fix:' commits in /repo, listed in known_findings.json."}
json.dump(m, open(os.path.join(ROOT, "MANIFEST.json"), "w"), indent=1)
print("checks:", [c["property_id"] for c in checks])
