"""Selections of synapses on a network with reciprocal, parallel and autaptic synapses (shared by the C09 and C11 harnesses)."""


def synapse_selection_section(ctx, viol):
    """views chosen by SYNAPSES on a network with reciprocal, parallel and autaptic synapses of two interleaved
    types: edge(int | list | mask) on the module, on a synapse-type view and on a cell-restricted view, and
    select(edges=...); the synapses in view against labels computed here, and set() through the view against a
    before/after diff of net.edges (the view must also still hold exactly its synapses afterwards)"""
    import numpy as np
    import jaxley as jx
    import simlib
    from jaxley.connect import connect
    from jaxley.synapses import IonotropicSynapse, TestSynapse
    rng = ctx.rng
    comp = jx.Compartment()
    n_checks = 0
    with simlib.quiet():
        cells = [jx.Cell([jx.Branch([comp] * n) for n in counts], parents=par) for counts, par in (([2, 1], [-1, 0]), ([1, 2], [-1, 0]), ([3], [-1]))]

    def build():
        with simlib.quiet():
            net = jx.Network(cells)
            c = lambda i: net.select(nodes=[i])
            # a->b, b->a (reciprocal), a->b again (parallel), an autapse, and a bridge; types interleaved
            pairs = [(0, 3, IonotropicSynapse), (3, 0, TestSynapse), (3, 0, IonotropicSynapse), (0, 3, TestSynapse), (0, 3, IonotropicSynapse),
                     (3, 3, IonotropicSynapse), (6, 0, TestSynapse), (3, 6, IonotropicSynapse)]
            for a, b, T in pairs:
                connect(c(a), c(b), T())
        return net
    net = build()
    E = net.edges
    ne = len(E)
    types = list(E["type"])
    cell_of = {int(i): int(net.nodes.loc[i, "global_cell_index"]) for i in net.nodes.index}
    param = {"IonotropicSynapse": "IonotropicSynapse_gS", "TestSynapse": "TestSynapse_gC"}
    for _ in range(ctx.budget(25, 200)):
        how = rng.choice(["module", "type", "cells", "select"])
        if how == "module":
            base_labels, mk = list(range(ne)), (lambda n_: n_)
        elif how == "type":
            T = rng.choice(["IonotropicSynapse", "TestSynapse"])
            base_labels, mk = [i for i in range(ne) if types[i] == T], (lambda n_, T=T: getattr(n_, T))
        elif how == "cells":
            cs = sorted(rng.sample(range(3), rng.randint(1, 2)))
            base_labels = [i for i in range(ne) if cell_of[int(E.loc[i, "pre_global_comp_index"])] in cs and cell_of[int(E.loc[i, "post_global_comp_index"])] in cs]
            mk = (lambda n_, cs=cs: n_.cell(cs))
        else:
            base_labels, mk = list(range(ne)), None
        if not base_labels:
            continue
        form = rng.choice(["int", "list", "mask", "mask_array"])
        k = len(base_labels)
        if form == "int":
            pos = [rng.randrange(k)]; arg = pos[0]
        elif form == "list":
            pos = sorted(rng.sample(range(k), rng.randint(1, k))); arg = list(pos)
        else:
            m = [rng.random() < 0.5 for _ in range(k)]
            if not any(m):
                m[rng.randrange(k)] = True
            pos = [i for i, b in enumerate(m) if b]; arg = np.asarray(m) if form == "mask_array" else m
        want = [base_labels[i] for i in pos]
        desc = {"view": how, "index_form": form, "positions": pos, "synapses_in_parent_view": base_labels}
        try:
            fresh = build()
            with simlib.quiet():
                if how == "select":
                    view = fresh.select(edges=(want if form in ("int", "list") else arg))
                else:
                    view = mk(fresh).edge(arg)
            got = sorted(int(i) for i in view.edges.index)
            n_checks += 1
            if got != want:
                viol.append(dict(desc, kind="a selection of synapses does not hold exactly the synapses it denotes", got=got, expected=want, finding_class=None))
                continue
            before = fresh.edges.copy()
            t0 = types[want[0]]
            with simlib.quiet():
                view.set(param[t0], 0.123)
            after = fresh.edges
            changed = [int(i) for i in after.index if not (before.loc[i].equals(after.loc[i]))]
            expect_changed = [i for i in want if types[i] == t0]
            still = sorted(int(i) for i in view.edges.index)
            n_checks += 1
            if changed != expect_changed or still != want:
                viol.append(dict(desc, kind="set() through a view of synapses changes other synapses, or the view no longer holds its synapses afterwards", parameter=param[t0],
                                 rows_changed=changed, expected_rows=expect_changed, synapses_in_view_afterwards=still, expected_in_view=want, finding_class=None))
        except Exception as ex:
            viol.append(dict(desc, kind="a selection of synapses raised", error=repr(ex)[:200], finding_class=None))
    return n_checks


