"""Directed cases for the defects F39-F61 (found by the round-3 audits): one small, deterministic
scenario per defect with an expectation that does not come from the code under test (an
analytic value, the same selection written another way, the module built directly, ...).
Every harness runs the cases of its property before its random part, so a return of the
defect is reported with the scenario as replay.  `run(pid, viol)` returns the number of cases."""
import math
import warnings


def _mods():
    import jax
    import jax.numpy as jnp
    import numpy as np
    import jaxley as jx
    return jax, jnp, np, jx


def _irregular_net():
    """3 cells with 3/2/4 branches and 2,3,1 | 4,2 | 1,2,3,2 compartments, 7 synapses of two interleaved types"""
    jax, jnp, np, jx = _mods()
    from jaxley.connect import connect
    from jaxley.synapses import IonotropicSynapse, TestSynapse

    def cell(counts, parents):
        return jx.Cell([jx.Branch([jx.Compartment()] * n) for n in counts], parents=parents)
    net = jx.Network([cell([2, 3, 1], [-1, 0, 0]), cell([4, 2], [-1, 0]), cell([1, 2, 3, 2], [-1, 0, 0, 1])])
    pairs = [((0, 0, 0), (1, 0, 1)), ((0, 1, 1), (2, 2, 0)), ((1, 1, 0), (0, 2, 0)), ((1, 0, 3), (2, 3, 1)),
             ((2, 0, 0), (0, 1, 2)), ((2, 1, 1), (1, 1, 1)), ((2, 2, 2), (2, 0, 0))]
    for k, (a, b) in enumerate(pairs):
        connect(net.cell(a[0]).branch(a[1]).comp(a[2]), net.cell(b[0]).branch(b[1]).comp(b[2]),
                IonotropicSynapse() if k % 2 == 0 else TestSynapse())
    return net


# ------------------------------------------------------------------------------------------ C07
def c07_init_fn_uses_current_parameters():
    """F39: manual stepping after the module was modified must equal integrate on the same module"""
    jax, jnp, np, jx = _mods()
    from jaxley.channels import HH
    from jaxley.integrate import build_init_and_step_fn
    n = 40
    cell = jx.Cell(jx.Branch(jx.Compartment(), 2), parents=[-1, 0])
    cell.insert(HH())
    cell.branch(0).comp(0).stimulate(0.05 * jnp.ones(n), verbose=False)
    cell.branch(1).comp(1).record(verbose=False)
    jx.integrate(cell)
    cell.set("HH_gNa", 0.3)                      # modified AFTER the last integrate
    init_fn, step_fn = build_init_and_step_fn(cell)
    states, params = init_fn(cell.get_parameters())
    stim = cell.externals["i"]
    out = [float(states["v"][3])]
    for t in range(n):
        states = step_fn(states, params, {"i": stim[:, t]})
        out.append(float(states["v"][3]))
    ref = np.asarray(jx.integrate(cell))[0]
    d = float(np.abs(np.asarray(out) - ref).max())
    if d > 1e-8:
        return {"kind": "manual stepping with build_init_and_step_fn uses stale parameters (module modified after the last integrate)", "max_abs_diff": d}


def c07_step_fn_does_not_mutate():
    """F40: the state handed to step_fn is still the state before the step"""
    jax, jnp, np, jx = _mods()
    from jaxley.channels import HH
    from jaxley.integrate import build_init_and_step_fn
    cell = jx.Cell(jx.Branch(jx.Compartment(), 2), parents=[-1, 0])
    cell.insert(HH())
    cell.branch(0).comp(0).stimulate(0.05 * jnp.ones(10), verbose=False)
    cell.branch(1).comp(1).record(verbose=False)
    _, st = jx.integrate(cell, return_states=True)
    before = {k: np.asarray(v).copy() for k, v in st.items()}
    init_fn, step_fn = build_init_and_step_fn(cell)
    s, params = init_fn(cell.get_parameters(), st)
    step_fn(s, params, {"i": cell.externals["i"][:, 0]})
    changed = [k for k in before if not np.array_equal(before[k], np.asarray(st[k]))]
    if changed:
        return {"kind": "step_fn modified the state dictionary returned by integrate(return_states=True)", "changed": changed}


def c07_fwd_euler_every_backend():
    """F41: forward Euler does not depend on the voltage solver"""
    jax, jnp, np, jx = _mods()
    from jaxley.channels import Leak
    br = jx.Branch(jx.Compartment(), 3)
    br.insert(Leak())
    br.comp(0).stimulate(0.02 * jnp.ones(20), verbose=False)
    br.comp(2).record(verbose=False)
    ref = np.asarray(jx.integrate(br, solver="fwd_euler", delta_t=0.01, voltage_solver="jaxley.stone"))
    try:
        out = np.asarray(jx.integrate(br, solver="fwd_euler", delta_t=0.01, voltage_solver="jax.sparse"))
    except TypeError as ex:
        return {"kind": "solver='fwd_euler' raises with voltage_solver='jax.sparse'", "error": repr(ex)[:200]}
    if np.abs(out - ref).max() > 1e-10:
        return {"kind": "fwd_euler differs between voltage solvers", "max_abs_diff": float(np.abs(out - ref).max())}


# ------------------------------------------------------------------------------------------ C08
def c08_step_current_on_the_grid():
    """F42: a step from t0 for d ms, both multiples of dt, occupies exactly the samples t0/dt .. (t0+d)/dt - 1"""
    jax, jnp, np, jx = _mods()
    bad = []
    for dt, k0, kd in [(0.025, 12, 40), (0.1, 12, 20), (0.1, 7, 5), (0.025, 40, 40), (0.05, 23, 7)]:
        t0, d = round(k0 * dt, 6), round(kd * dt, 6)          # the decimal literals a user writes (0.3, not 12*0.025)
        cur = np.asarray(jx.step_current(i_delay=t0, i_dur=d, i_amp=1.0, delta_t=dt, t_max=(k0 + kd + 5) * dt))
        on = np.nonzero(cur)[0]
        if len(on) != kd or on[0] != k0:
            bad.append({"dt": dt, "delay_steps": k0, "dur_steps": kd, "first": int(on[0]) if len(on) else None, "count": int(len(on))})
        cur2 = np.asarray(jx.datapoint_to_step_currents(t0, d, jnp.asarray([1.0, 2.0]), dt, (k0 + kd + 5) * dt))
        on2 = np.nonzero(cur2[1])[0]
        if len(on2) != kd or on2[0] != k0:
            bad.append({"fn": "datapoint_to_step_currents", "dt": dt, "delay_steps": k0, "dur_steps": kd})
    if bad:
        return {"kind": "step current does not start/end on the requested time steps", "cases": bad}


def c08_data_clamp_of_two_states():
    """F43: chaining data_clamp over two different states either clamps both or is refused; it never
    silently clamps another state"""
    jax, jnp, np, jx = _mods()
    from jaxley.channels import HH
    T = 6
    cell = jx.Cell([jx.Branch(jx.Compartment(), 2)] * 2, parents=[-1, 0])
    cell.insert(HH())
    cell.branch(0).comp(0).record("v", verbose=False)
    cell.branch(0).comp(0).record("HH_m", verbose=False)
    try:
        dc = cell.branch(0).comp(0).data_clamp("v", -50.0 * jnp.ones(T), None)
        dc = cell.branch(1).comp(1).data_clamp("HH_m", 0.9 * jnp.ones(T), dc)
    except ValueError:
        return None                               # refused
    out = np.asarray(jx.integrate(cell, data_clamps=dc))
    if not np.allclose(out[0, 1:], -50.0) or np.allclose(out[1, 1:], -50.0):
        return {"kind": "chained data_clamp of two states relabels the first clamp", "v_row": out[0].tolist(), "m_row": out[1].tolist()}


# ------------------------------------------------------------------------------------------ C14 / C13
def c14_init_states_after_set_ncomp_on_assembled_cell():
    """F44: a cell assembled from branches with different channels, re-discretised, can be initialised"""
    jax, jnp, np, jx = _mods()
    from jaxley.channels import HH, K
    a = jx.Compartment(); a.insert(HH())
    b = jx.Compartment(); b.insert(K())
    cell = jx.Cell([jx.Branch(a, 2), jx.Branch(b, 2)], parents=[-1, 0])
    cell.branch(0).set("v", -50.0)
    cell.branch(1).set("v", -80.0)
    cell.branch(1).set_ncomp(3)
    dt = {c: str(cell.nodes[c].dtype) for c in ("v", "capacitance", "HH", "K")}
    try:
        cell.init_states()
        cell.make_trainable("capacitance", verbose=False)
    except TypeError as ex:
        return {"kind": "init_states / make_trainable raise after set_ncomp on a cell assembled from heterogeneous branches", "dtypes": dt, "error": repr(ex)[:200]}
    am = 0.1 * 10 / (math.exp(1.0) - 1.0) if False else None  # (closed form checked in the main harness)
    m = float(cell.nodes.loc[0, "HH_m"])
    if not (0.0 < m < 1.0) or dt["v"] != "float64":
        return {"kind": "tables of a re-discretised assembled cell are not numeric", "dtypes": dt}


# ------------------------------------------------------------------------------------------ C16
def c16_neurite_on_first_soma_point():
    """F45: two translated copies of one neurite, on soma point 2 and on soma point 1, get the same radii
    (all traced radii of the neurites are 0.5, so every interpolation of their own radii is 0.5)"""
    jax, jnp, np, jx = _mods()
    import os
    rows = [(1, 1, 0.0, 0.0, 0.0, 5.0, -1), (2, 1, 10.0, 0.0, 0.0, 5.0, 1), (3, 3, 10.0, 6.0, 0.0, 0.5, 2), (4, 3, 10.0, 16.0, 0.0, 0.5, 3),
            (5, 3, 0.0, 6.0, 0.0, 0.5, 1), (6, 3, 0.0, 16.0, 0.0, 0.5, 5)]
    work = os.path.join(os.path.dirname(os.path.dirname(os.path.abspath(__file__))), ".work")
    os.makedirs(work, exist_ok=True)
    path = os.path.join(work, f"regress_{os.getpid()}.swc")
    with open(path, "w") as f:
        for r in rows:
            f.write(" ".join(str(x) for x in r) + "\n")
    try:
        with warnings.catch_warnings():
            warnings.simplefilter("ignore")
            cell = jx.read_swc(path, ncomp=2)
    finally:
        os.remove(path)
    rad = {}
    for b in range(len(cell.xyzr)):
        p = cell.xyzr[b][:, :3]
        if len(p) == 3 and np.allclose(p[1], [10, 6, 0]):
            rad["on soma point 2"] = cell.branch(b).nodes["radius"].tolist()
        if len(p) == 3 and np.allclose(p[1], [0, 6, 0]):
            rad["on soma point 1"] = cell.branch(b).nodes["radius"].tolist()
    if len(rad) != 2 or not np.allclose(rad["on soma point 1"], 0.5) or not np.allclose(rad["on soma point 2"], 0.5):
        return {"kind": "a neurite on the first point of a multi-point soma gets the soma radius blended in", "radii": rad, "expected": [0.5, 0.5]}


def c16_max_branch_len_on_sparse_and_dense_tracings():
    """F25 / F63: read_swc(max_branch_len=m) neither raises nor changes the total cable length, on a COARSE tracing (a section
    longer than m with fewer than 2 points per requested piece: used to raise in _build_parents), on a stem of a single-point
    soma (first piece used to be [soma, first point]: +1 um) and on a multi-point soma (first piece used to be one point: +2r)"""
    jax, jnp, np, jx = _mods()
    import os
    files = {
        "coarse: two 100 um segments, m=30": ([(1, 1, 0.0, 0.0, 0.0, 5.0, -1), (2, 1, 10.0, 0.0, 0.0, 5.0, 1), (3, 3, 110.0, 0.0, 0.0, 1.0, 2), (4, 3, 210.0, 0.0, 0.0, 1.0, 3)], 30.0),
        "coarse: single-point soma, three 40 um segments, m=15": ([(1, 1, 0.0, 0.0, 0.0, 5.0, -1), (2, 3, 5.0, 0.0, 0.0, 1.0, 1), (3, 3, 45.0, 0.0, 0.0, 1.0, 2), (4, 3, 85.0, 0.0, 0.0, 1.0, 3), (5, 3, 125.0, 0.0, 0.0, 1.0, 4)], 15.0),
        "stem of a single-point soma, 5 points 10 um apart, m=25": ([(1, 1, 0.0, 0.0, 0.0, 5.0, -1)] + [(i + 2, 3, 10.0 * (i + 1), 0.0, 0.0, 1.0, i + 1) for i in range(5)], 25.0),
        "3-point soma, m=10": ([(1, 1, 0.0, 0.0, 0.0, 3.0, -1), (2, 1, 6.0, 0.0, 0.0, 3.0, 1), (3, 1, 12.0, 0.0, 0.0, 3.0, 2), (4, 3, 22.0, 0.0, 0.0, 1.0, 3), (5, 3, 32.0, 0.0, 0.0, 1.0, 4)], 10.0),
    }
    work = os.path.join(os.path.dirname(os.path.dirname(os.path.abspath(__file__))), ".work")
    os.makedirs(work, exist_ok=True)
    path = os.path.join(work, f"regress_{os.getpid()}.swc")
    bad = []
    for name, (rows, m) in files.items():
        with open(path, "w") as f:
            for r in rows:
                f.write(" ".join(str(x) for x in r) + "\n")
        try:
            with warnings.catch_warnings():
                warnings.simplefilter("ignore")
                t0 = float(jx.read_swc(path, ncomp=1).nodes["length"].sum())
                c1 = jx.read_swc(path, ncomp=1, max_branch_len=m)
                t1 = float(c1.nodes["length"].sum())
            if abs(t0 - t1) > 1e-9:
                bad.append({"file": name, "total_without": t0, "total_with": t1, "branch_lengths_with": [float(x) for x in c1.nodes["length"]]})
        except Exception as ex:
            bad.append({"file": name, "raised": repr(ex)[:200]})
        finally:
            os.remove(path)
    if bad:
        return {"kind": "read_swc with max_branch_len raises or changes the total cable length", "cases": bad}


# ------------------------------------------------------------------------------------------ C09
def c09_synapse_that_reads_v_pre():
    """F46: pre cell held at -70 mV exactly, TanhRateSynapse: the synaptic current is constant, so the post
    voltage is the straight line v0 - n dt I 1e5 / (2 pi r l cm) for every solver and time step"""
    jax, jnp, np, jx = _mods()
    from jaxley.connect import connect
    from jaxley.synapses import TanhRateSynapse
    gS, slope, x0 = 5e-3, 2.0, -70.25
    bad = []
    for solver, vs, dt in [("bwd_euler", "jaxley.stone", 0.025), ("bwd_euler", "jax.sparse", 0.0125), ("crank_nicolson", "jaxley.thomas", 0.025), ("fwd_euler", "jaxley.stone", 0.025)]:
        net = jx.Network([jx.Cell([jx.Branch(jx.Compartment(), 1)], parents=[-1]) for _ in range(2)])
        connect(net.cell(0).branch(0).comp(0), net.cell(1).branch(0).comp(0), TanhRateSynapse())
        net.set("TanhRateSynapse_gS", gS); net.set("TanhRateSynapse_slope", slope); net.set("TanhRateSynapse_x_offset", x0)
        net.set("v", -70.0)
        nsteps = int(round(1.0 / dt))
        net.cell(0).branch(0).comp(0).clamp("v", -70.0 * jnp.ones(nsteps), verbose=False)
        net.cell(1).branch(0).comp(0).record("v", verbose=False)
        out = np.asarray(jx.integrate(net, delta_t=dt, solver=solver, voltage_solver=vs))[0]
        i_syn = -gS * math.tanh((-70.0 - x0) * slope)                 # uS*... current in nA-equivalent units of the code
        area = 2 * math.pi * 1.0 * 10.0
        expected = -70.0 - np.arange(len(out)) * dt * i_syn * 1e5 / area / 1.0
        d = float(np.abs(out - expected).max())
        if d > 1e-6:
            bad.append({"solver": solver, "voltage_solver": vs, "dt": dt, "max_abs_err_mV": d, "v_post_end": float(out[-1]), "expected_end": float(expected[-1])})
    if bad:
        return {"kind": "a synapse that only reads the presynaptic voltage puts a spurious conductance on the postsynaptic compartment", "cases": bad}


def c09_subviews_of_synapse_type_views():
    """F47: the same synapses selected by filters in either order, and nested edge() calls"""
    net = _irregular_net()
    import numpy as np
    g = lambda v: sorted(int(x) for x in v.edges["global_edge_index"])
    bad = []
    a, b = g(net.cell([0, 1]).IonotropicSynapse.edge([0, 1])), None
    try:
        b = g(net.IonotropicSynapse.cell([0, 1]).edge([0, 1]))
    except Exception as ex:
        b = repr(ex)[:80]
    if a != b:
        bad.append({"chain": "IonotropicSynapse.cell([0,1]).edge([0,1])", "got": b, "expected": a})
    ion = g(net.IonotropicSynapse)
    for i in (0, 1):
        try:
            got = g(net.IonotropicSynapse.edge([1, 2]).edge(i))
        except Exception as ex:
            got = repr(ex)[:80]
        if got != [ion[1 + i]]:
            bad.append({"chain": f"IonotropicSynapse.edge([1,2]).edge({i})", "got": got, "expected": [ion[1 + i]]})
    if bad:
        return {"kind": "a sub-view of a synapse-type view addresses synapses by a stale rank", "cases": bad}


# ------------------------------------------------------------------------------------------ C11
def c11_select_mask_on_view():
    """F48"""
    import numpy as np
    net = _irregular_net()
    v = net.cell([0, 1]).branch(1)
    labels = v.nodes.index.to_numpy()
    mask = np.zeros(len(labels), dtype=bool); mask[[2, 3]] = True
    try:
        got = v.select(mask).nodes.index.tolist()
        got_l = v.select(list(mask)).nodes.index.tolist()
        e = net.cell(2).select(edges=np.ones(len(net.cell(2).edges), dtype=bool)).edges.index.tolist()
    except Exception as ex:
        return {"kind": "select(<boolean mask>) on a view raises", "error": repr(ex)[:200]}
    if got != labels[mask].tolist() or got_l != got or e != net.cell(2).edges.index.tolist():
        return {"kind": "select(<boolean mask>) on a view uses the positions of the True entries as row labels", "got": got, "expected": labels[mask].tolist()}


def c11_select_sorted():
    """F49"""
    net = _irregular_net()
    try:
        a = net.select(nodes=[19, 3, 7], sorted=True).nodes.index.tolist()
        b = net.select(edges=[3, 1], sorted=True).edges.index.tolist()
    except Exception as ex:
        return {"kind": "select(..., sorted=True) raises unless nodes and edges are both given", "error": repr(ex)[:200]}
    if a != [3, 7, 19] or b != [1, 3]:
        return {"kind": "select(..., sorted=True) does not sort", "got": [a, b]}


def c11_lazy_indexing_after_scope():
    """F50"""
    net = _irregular_net()
    idx = lambda v: v.nodes.index.tolist()
    bad = []
    for name, lazy, method in [
        ("net.scope('global')[2]", lambda: net.scope("global")[2], lambda: net.scope("global").cell(2)),
        ("net.cell(2).scope('global')[6]", lambda: net.cell(2).scope("global")[6], lambda: net.cell(2).scope("global").branch(6)),
        ("net.cell(2).scope('global').branch(6).scope('local')[0]", lambda: net.cell(2).scope("global").branch(6).scope("local")[0],
         lambda: net.cell(2).scope("global").branch(6).scope("local").comp(0)),
        ("iteration over net.cell(2).scope('global')", lambda: [idx(b) for b in net.cell(2).scope("global")], lambda: [idx(b) for b in net.cell(2).scope("global").branches]),
    ]:
        try:
            a = lazy()
            a = a if isinstance(a, list) else idx(a)
        except Exception as ex:
            a = repr(ex)[:80]
        m = method()
        m = m if isinstance(m, list) else idx(m)
        if a != m:
            bad.append({"chain": name, "got": a, "expected": m})
    if bad:
        return {"kind": "lazy [] indexing / iteration disagree with the method form after a scope switch", "cases": bad}


def c11_view_older_than_group():
    """F51"""
    net = _irregular_net()
    w = net.cell(0)
    net.cell(1).add_to_group("late")
    try:
        got = w.late.nodes.index.tolist()
    except ValueError:
        return None                              # "Nothing in view": the group has no member in cell 0
    return {"kind": "a group selected through a view older than the group selects everything in the view", "got": got, "expected": []}


def c11_insert_through_a_view_then_use_it():
    """F52"""
    jax, jnp, np, jx = _mods()
    from jaxley.channels import HH
    net = _irregular_net()
    v = net.cell(0).branch(1)
    rows = v.nodes.index.tolist()
    try:
        v.insert(HH())
        v.record("HH_m", verbose=False)          # record() looks the state up in the view itself
        v.set("HH_gNa", 0.5)
    except KeyError as ex:
        return {"kind": "a view through which a channel was inserted does not know the channel", "error": repr(ex)[:200]}
    got = net.nodes.index[net.nodes["HH_gNa"] == 0.5].tolist()
    if got != rows:
        return {"kind": "set through the inserting view changed other rows", "got": got, "expected": rows}


def c11_loc_end_points_as_ints():
    """F53"""
    net = _irregular_net()
    c = net.cell(2)
    try:
        a, b, ab = c.loc(0).nodes.index.tolist(), c.loc(1).nodes.index.tolist(), c.loc([0, 1]).nodes.index.tolist()
    except Exception as ex:
        return {"kind": "loc(0) / loc(1) given as ints raise", "error": repr(ex)[:200]}
    if a != c.loc(0.0).nodes.index.tolist() or b != c.loc(1.0).nodes.index.tolist() or ab != c.loc([0.0, 1.0]).nodes.index.tolist():
        return {"kind": "loc with int end points differs from float end points", "got": [a, b, ab]}


def c11_move_part_of_a_branch():
    """F54: moving through a view of part of a branch must move exactly those rows, or be refused"""
    jax, jnp, np, jx = _mods()
    cell = jx.Cell([jx.Branch(jx.Compartment(), 4), jx.Branch(jx.Compartment(), 3)], parents=[-1, 0])
    cell.compute_xyz()
    cell.compute_compartment_centers()
    x0 = cell.nodes["x"].to_numpy().copy()
    xyz0 = [a.copy() for a in cell.xyzr]
    try:
        cell.branch(0).comp(1).move(10.0, 0.0, 0.0, update_nodes=True)
    except ValueError:
        return None
    cell.compute_compartment_centers()
    dx = (cell.nodes["x"].to_numpy() - x0).round(6).tolist()
    if dx != [0.0, 10.0, 0.0, 0.0, 0.0, 0.0, 0.0]:
        return {"kind": "move through a view of part of a branch moves other compartments", "dx_per_row": dx, "expected": [0, 10, 0, 0, 0, 0, 0],
                "branch_0_traced_points_moved": bool(not np.allclose(cell.xyzr[0][:, 0], xyz0[0][:, 0]))}


# ------------------------------------------------------------------------------------------ C06
def c06_data_set_is_functional():
    """F55"""
    jax, jnp, np, jx = _mods()
    cell = jx.Cell([jx.Branch(jx.Compartment(), 2)] * 2, parents=[-1, 0])
    base = cell.branch(0).data_set("length", 20.0, None)
    n0 = len(base)
    varied = cell.branch(1).data_set("radius", 2.0, base)
    if len(base) != n0 or varied is base:
        return {"kind": "data_set appends to the param_state it is given", "len_before": n0, "len_after": len(base)}


def c06_jit_leaves_no_tracers():
    """F56"""
    jax, jnp, np, jx = _mods()
    import copy
    from jaxley.connect import connect
    from jaxley.synapses import IonotropicSynapse
    net = jx.Network([jx.Cell([jx.Branch(jx.Compartment(), 2)], parents=[-1]) for _ in range(2)])
    connect(net.cell(0).branch(0).comp(0), net.cell(1).branch(0).comp(1), IonotropicSynapse())
    net.cell(1).branch(0).comp(0).record(verbose=False)

    def sim(i):
        ds = net.cell(0).branch(0).comp(0).data_stimulate(i, None)
        return jx.integrate(net, data_stimuli=ds)
    jax.jit(sim)(0.01 * jnp.ones(8))
    leaked = [k for d in (net.jaxnodes, net.jaxedges) for k, v in (d or {}).items() if isinstance(v, jax.core.Tracer)]
    err = None
    try:
        net.edge(0).set("IonotropicSynapse_gS", 1e-3)
        net.IonotropicSynapse.nodes
        copy.deepcopy(net)
    except Exception as ex:
        err = repr(ex)[:160]
    if leaked or err:
        return {"kind": "a jit-compiled integrate leaves tracers in the module (views with synapses / deepcopy raise afterwards)", "leaked": leaked[:6], "error": err}


# ------------------------------------------------------------------------------------------ C13
def c13_set_ncomp_through_old_or_reordered_views():
    """F57: either the result equals the directly built cell or the call is refused"""
    jax, jnp, np, jx = _mods()
    old, new, lens = [2, 3, 4], [5, 4, 3], [60.0, 70.0, 80.0]

    def build(counts):
        brs = []
        for n, L in zip(counts, lens):
            b = jx.Branch(jx.Compartment(), n)
            b.set("length", L / n)
            brs.append(b)
        return jx.Cell(brs, parents=[-1, 0, 0])
    cell = build(old)
    views = list(cell.branches)
    refused = False
    try:
        for v, n in zip(views, new):
            v.set_ncomp(n)
    except (ValueError, AssertionError):
        refused = True
    bad = []
    if not refused:
        rows = [int((cell.nodes["global_branch_index"] == b).sum()) for b in range(3)]
        L = [float(cell.nodes.loc[cell.nodes["global_branch_index"] == b, "length"].sum()) for b in range(3)]
        if rows != new or not np.allclose(L, lens):
            bad.append({"how": "views created before the first set_ncomp", "rows_per_branch": rows, "lengths": L, "expected_rows": new, "expected_lengths": lens})
    cell = build([4, 4, 4])
    try:
        cell.select(nodes=[7, 6, 5, 4]).set_ncomp(2)
        rows = [int((cell.nodes["global_branch_index"] == b).sum()) for b in range(3)]
        if rows != [4, 2, 4]:
            bad.append({"how": "select(nodes=[7,6,5,4])", "rows_per_branch": rows, "expected_rows": [4, 2, 4]})
    except (ValueError, AssertionError):
        pass
    if bad:
        return {"kind": "set_ncomp through an outdated or reordered view deletes rows of other branches", "cases": bad}


def c13_single_branch_cell():
    """F58"""
    jax, jnp, np, jx = _mods()
    cell = jx.Cell([jx.Branch(jx.Compartment(), 3)], parents=[-1])
    try:
        cell.branch(0).set_ncomp(2)
    except AssertionError as ex:
        return {"kind": "branch(0).set_ncomp(n) is refused on a cell with a single branch", "error": repr(ex)[:120]}
    if len(cell.nodes) != 2 or abs(float(cell.nodes["length"].sum()) - 30.0) > 1e-12:
        return {"kind": "set_ncomp on a single-branch cell gives wrong tables", "rows": len(cell.nodes)}


def c13_uniform_properties_kept_exactly():
    """F59"""
    jax, jnp, np, jx = _mods()
    from jaxley.channels import Leak
    cell = jx.Cell([jx.Branch(jx.Compartment(), 3)] * 2, parents=[-1, 0])
    cell.insert(Leak())
    cell.set("axial_resistivity", 0.1); cell.set("Leak_gLeak", 0.7); cell.set("capacitance", 1.1)
    cell.branch(1).set_ncomp(2)
    got = {k: cell.branch(1).nodes[k].tolist() for k in ("axial_resistivity", "Leak_gLeak", "capacitance")}
    if got != {"axial_resistivity": [0.1, 0.1], "Leak_gLeak": [0.7, 0.7], "capacitance": [1.1, 1.1]}:
        return {"kind": "set_ncomp changes uniform properties of the branch (rounding of the mean)", "got": {k: [repr(x) for x in v] for k, v in got.items()}}


def c13_compartment_centres():
    """F60"""
    jax, jnp, np, jx = _mods()

    def build(counts):
        brs = []
        for n in counts:
            b = jx.Branch(jx.Compartment(), n)
            b.set("length", 40.0 / n)
            brs.append(b)
        c = jx.Cell(brs, parents=[-1, 0, 0])
        c.compute_xyz()
        c.compute_compartment_centers()
        return c
    cell = build([2, 2, 2])
    cell.branch(1).set_ncomp(4)
    direct = build([2, 4, 2])
    a, b = cell.nodes[["x", "y", "z"]].to_numpy(), direct.nodes[["x", "y", "z"]].to_numpy()
    if a.shape != b.shape or not np.allclose(a, b):
        return {"kind": "after set_ncomp the new compartments all carry the same centre", "got": a[2:6].round(4).tolist(), "expected": b[2:6].round(4).tolist()}


# ------------------------------------------------------------------------------------------ C17
def c17_affine_guard():
    """F61"""
    jax, jnp, np, jx = _mods()
    from jaxley.optimize.transforms import AffineTransform
    bad = []
    for a in (1e-8, 1e-9, -5e-9, 1e-12):
        try:
            t = AffineTransform(a, 2e-9)
            x = jnp.asarray(3.0)
            if abs(float(t.inverse(t.forward(x))) - 3.0) > 1e-6:
                bad.append({"scale": a, "roundtrip": float(t.inverse(t.forward(x)))})
        except ValueError:
            bad.append({"scale": a, "refused": True})
    try:
        AffineTransform(jnp.asarray([1.0, 0.0]), 0.0)
        bad.append({"scale": [1.0, 0.0], "accepted": True})
    except ValueError:
        pass
    if bad:
        return {"kind": "AffineTransform refuses invertible (tiny) scales or accepts a scale with a zero entry", "cases": bad}


# ------------------------------------------------------------------------------------------ C10
def c10_kept_views_read_current_tables():
    """F62: the same calls through a view kept in a variable and through fresh views"""
    jax, jnp, np, jx = _mods()
    from jaxley.channels import HH
    bad = []
    cell = jx.Cell([jx.Branch(jx.Compartment(), 2)] * 3, parents=[-1, 0, 0])
    b = cell.branch(0)
    b.set("radius", 3.0)
    b.make_trainable("radius", verbose=False)
    got = [float(x) for d in cell.get_parameters() for v in d.values() for x in np.asarray(v).ravel()]
    if got != [3.0]:
        bad.append({"case": "b.set('radius', 3.0); b.make_trainable('radius')", "trainable": got, "expected": [3.0]})
    cell = jx.Cell([jx.Branch(jx.Compartment(), 2)] * 3, parents=[-1, 0, 0])
    cell.branch(0).insert(HH())
    two = cell.branch([0, 1])
    two.branch(1).insert(HH())
    two.set("HH_gNa", 0.5)
    col = cell.nodes["HH_gNa"].to_numpy()
    if not (np.allclose(col[:4], 0.5) and np.isnan(col[4:]).all()):
        bad.append({"case": "insert through a sub-view, then set through the kept parent view", "HH_gNa": [repr(float(x)) for x in col], "expected": "0.5 in rows 0-3, NaN in rows 4-5"})
    ps = two.data_set("HH_gNa", 0.7, None)
    rows = sorted(int(i) for i in np.asarray(ps[0]["indices"]).ravel())
    if rows != [0, 1, 2, 3]:
        bad.append({"case": "data_set through the kept parent view", "rows": rows, "expected": [0, 1, 2, 3]})
    if bad:
        return {"kind": "set / data_set / make_trainable through a view kept in a variable work on a stale snapshot", "cases": bad}


# ------------------------------------------------------------------------------------------ C19
def c19_delete_channel_with_references():
    """F65: after record / clamp / make_trainable of a channel's state or parameter, deleting the channel from
    those compartments either removes the references or is refused; the module can still be simulated"""
    jax, jnp, np, jx = _mods()
    from jaxley.channels import HH, Leak
    bad = []
    for what in ("record", "clamp", "trainable"):
        cell = jx.Cell([jx.Branch(jx.Compartment(), 2)] * 2, parents=[-1, 0])
        cell.insert(Leak()); cell.insert(HH())
        cell.branch(0).comp(0).record("v", verbose=False)
        if what.startswith("record"):
            cell.branch(1).comp(0).record("HH_m", verbose=False)
        elif what == "clamp":
            cell.branch(1).comp(0).clamp("HH_m", 0.5 * jnp.ones(4), verbose=False)
        else:
            cell.branch(1).make_trainable("HH_gNa", verbose=False)
        target = cell.branch(1) if what.endswith("elsewhere") else cell
        try:
            target.delete_channel(HH())
        except ValueError:
            continue                                           # refused, nothing changed
        comp_states, _ = cell._get_state_names()
        dangling = [s for s in cell.recordings.state if s not in comp_states]
        dangling += [k for k in cell.externals if k not in ("i", "v") and k not in comp_states]
        dangling += [k for p in cell.trainable_params for k in p if k not in cell.nodes.columns]
        err = None
        try:
            out = np.asarray(jx.integrate(cell, t_max=0.1, params=cell.get_parameters()))
        except Exception as ex:
            err = repr(ex)[:120]
        if dangling or err:
            bad.append({"history": f"insert HH; {what} HH_m / HH_gNa; delete_channel(HH)", "dangling": dangling, "integrate": err})
    # F69: the state is recorded only on compartments that never had the channel; deleting the channel where it is
    # makes the state disappear from the module
    cell = jx.Cell([jx.Branch(jx.Compartment(), 2)] * 2, parents=[-1, 0])
    cell.insert(Leak()); cell.branch(0).insert(HH())
    cell.record("HH_m", verbose=False)
    cell.branch(0).delete_recordings()
    try:
        cell.branch(0).delete_channel(HH())
        comp_states, _ = cell._get_state_names()
        dangling = [s for s in cell.recordings.state if s not in comp_states]
        if dangling:
            bad.append({"history": "HH on branch 0; record HH_m everywhere; delete the recordings of branch 0; delete_channel(HH) on branch 0", "dangling": dangling})
    except ValueError:
        pass
    if bad:
        return {"kind": "delete_channel leaves recordings / clamps / trainables of the deleted channel behind", "cases": bad}


def c19_delete_through_the_view_that_added():
    """F66 (and the sharing information of a refreshed view, part of F62)"""
    jax, jnp, np, jx = _mods()
    bad = []
    cell = jx.Cell([jx.Branch(jx.Compartment(), 2)] * 3, parents=[-1, 0, 0])
    v = cell.branch("all")
    v.record(verbose=False); v.delete_recordings()
    if len(cell.recordings):
        bad.append({"case": "v.record(); v.delete_recordings()", "recordings_left": len(cell.recordings)})
    v.stimulate(jnp.ones(3), verbose=False); v.delete_stimuli()
    v.clamp("v", jnp.ones(3), verbose=False); v.delete_clamps()
    if list(cell.externals):
        bad.append({"case": "v.stimulate(); v.delete_stimuli(); v.clamp(); v.delete_clamps()", "externals_left": list(cell.externals)})
    v.make_trainable("radius", verbose=False)
    shapes = [tuple(np.asarray(x).shape) for d in cell.trainable_params for x in d.values()]
    if shapes != [(3,)]:
        bad.append({"case": "branch('all') view reused after a deletion: make_trainable('radius')", "parameter_shapes": shapes, "expected": [(3,)]})
    if bad:
        return {"kind": "a view object reused after it added / deleted something behaves differently from a fresh view", "cases": bad}


def c19_record_i_and_compartment_set_ncomp():
    """F67, F68: accepted calls must leave a module that can be simulated as displayed"""
    jax, jnp, np, jx = _mods()
    bad = []
    cell = jx.Cell([jx.Branch(jx.Compartment(), 2)], parents=[-1])
    cell.record("v", verbose=False)
    try:
        cell.record("i", verbose=False)
        try:
            jx.integrate(cell, t_max=0.1)
        except Exception as ex:
            bad.append({"case": "record('i') accepted", "integrate": repr(ex)[:100]})
    except KeyError:
        pass
    comp = jx.Compartment()
    try:
        comp.set_ncomp(3)
        rows = len(comp.nodes)
        comp.record("v", verbose=False)
        comp.set("v", np.asarray([-70.0, -60.0, -50.0][:rows]))
        out = np.asarray(jx.integrate(comp, t_max=1.0))
        if rows != 1 and abs(out[0, -1] - out[-1, -1]) > 9.99:
            bad.append({"case": "Compartment().set_ncomp(3) accepted", "rows": rows, "note": "the compartments do not exchange current"})
    except AssertionError:
        pass
    except Exception as ex:
        bad.append({"case": "Compartment().set_ncomp(3) accepted", "error": repr(ex)[:120]})
    if bad:
        return {"kind": "an accepted call leaves a module that cannot be simulated as its tables display it", "cases": bad}


def c13_set_ncomp_through_a_kept_view():
    """F70, F71"""
    jax, jnp, np, jx = _mods()
    from jaxley.channels import HH
    bad = []
    cell = jx.Cell(jx.Branch(jx.Compartment(), ncomp=3), parents=[-1, 0, 0])
    v = cell.branch(1)
    cell.branch(1).set("radius", 2.0); cell.branch(1).set("length", 5.0); cell.branch(1).set("capacitance", 3.0)
    try:
        v.set_ncomp(2)
        b = cell.branch(1).nodes
        got = (b["radius"].tolist(), b["capacitance"].tolist(), float(b["length"].sum()))
        if got != ([2.0, 2.0], [3.0, 3.0], 15.0):
            bad.append({"case": "view created, then radius / length / capacitance set, then view.set_ncomp(2)", "radius, capacitance, total length": got, "expected": ([2.0, 2.0], [3.0, 3.0], 15.0)})
    except ValueError:
        pass
    cell = jx.Cell(jx.Branch(jx.Compartment(), ncomp=3), parents=[-1, 0, 0])
    v = cell.branch(1)
    cell.insert(HH())
    try:
        v.set_ncomp(2)
    except KeyError as ex:
        bad.append({"case": "view created, channel inserted, view.set_ncomp(2)", "error": repr(ex)[:120]})
    except ValueError:
        pass
    cell = jx.Cell(jx.Branch(jx.Compartment(), ncomp=3), parents=[-1, 0, 0])
    cell.set("v", 0.1)
    cell.branch(1).set_ncomp(3)
    vs = cell.branch(1).nodes["v"].tolist()
    if vs != [0.1, 0.1, 0.1]:
        bad.append({"case": "uniform v = 0.1, set_ncomp(3)", "v": [repr(x) for x in vs]})
    if bad:
        return {"kind": "set_ncomp through a view kept in a variable works on a stale snapshot / does not keep a uniform voltage exactly", "cases": bad}


def c11_negative_slices():
    """F72: slice(a, b) over cells / branches / compartments with negative bounds counts from the largest index in view"""
    jax, jnp, np, jx = _mods()
    cell = jx.Cell([jx.Branch(jx.Compartment(), n) for n in (2, 3, 1, 2)], parents=[-1, 0, 0, 1])
    g = lambda v: sorted(set(int(x) for x in v.nodes["global_branch_index"]))
    bad = []
    for sl, want in ((slice(None, -1), [0, 1, 2]), (slice(-1, None), [3]), (slice(-3, -1), [1, 2]), (slice(1, 3), [1, 2])):
        try:
            got = g(cell.branch(sl))
        except Exception as ex:
            got = repr(ex)[:60]
        if got != want:
            bad.append({"index": str(sl), "branches": got, "expected": want})
    try:
        got = sorted(int(i) for i in cell.branch(1).comp(slice(-2, None)).nodes.index)
    except Exception as ex:
        got = repr(ex)[:60]
    if got != [3, 4]:
        bad.append({"index": "branch(1).comp(slice(-2, None))", "rows": got, "expected": [3, 4]})
    if bad:
        return {"kind": "slices with negative bounds do not select the denoted cells / branches / compartments", "cases": bad}


CASES = {
    "C06": [c06_data_set_is_functional, c06_jit_leaves_no_tracers],
    "C07": [c07_init_fn_uses_current_parameters, c07_step_fn_does_not_mutate, c07_fwd_euler_every_backend],
    "C08": [c08_step_current_on_the_grid, c08_data_clamp_of_two_states],
    "C09": [c09_synapse_that_reads_v_pre, c09_subviews_of_synapse_type_views],
    "C10": [c10_kept_views_read_current_tables, c11_view_older_than_group, c06_data_set_is_functional],
    "C11": [c09_subviews_of_synapse_type_views, c11_select_mask_on_view, c11_select_sorted, c11_lazy_indexing_after_scope, c11_view_older_than_group,
            c11_insert_through_a_view_then_use_it, c11_loc_end_points_as_ints, c11_move_part_of_a_branch, c11_negative_slices],
    "C13": [c14_init_states_after_set_ncomp_on_assembled_cell, c13_set_ncomp_through_old_or_reordered_views, c13_single_branch_cell,
            c13_uniform_properties_kept_exactly, c13_compartment_centres, c13_set_ncomp_through_a_kept_view],
    "C14": [c14_init_states_after_set_ncomp_on_assembled_cell],
    "C16": [c16_neurite_on_first_soma_point, c16_max_branch_len_on_sparse_and_dense_tracings],
    "C17": [c17_affine_guard],
    "C19": [c19_delete_channel_with_references, c19_delete_through_the_view_that_added, c19_record_i_and_compartment_set_ncomp, c14_init_states_after_set_ncomp_on_assembled_cell, c13_set_ncomp_through_old_or_reordered_views],
}


def run(pid, viol):
    """run the directed cases of property pid; append violations; return the number of cases run"""
    n = 0
    for fn in CASES.get(pid, []):
        n += 1
        try:
            with warnings.catch_warnings():
                warnings.simplefilter("ignore")
                v = fn()
        except Exception as ex:
            import traceback
            v = {"kind": f"directed case {fn.__name__} raised", "error": repr(ex)[:300], "trace": traceback.format_exc()[-600:]}
        if v is not None:
            v.setdefault("finding_class", None)
            v["directed_case"] = fn.__name__
            viol.append(v)
    return n
