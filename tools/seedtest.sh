#!/bin/sh
# usage: tools/seedtest.sh <patch.diff> <Cxx> [<Cyy> ...]
# applies a seeded change to /repo, runs the given checks, undoes it and regenerates Layer G
patch="$1"; shift
cd /repo || exit 2
if [ -n "$(git status --porcelain --untracked-files=no)" ]; then echo "repo not clean"; exit 2; fi
git apply "$patch" || { echo "patch does not apply"; exit 2; }
cd /verif
rm -rf .work/evidence_backup && cp -r evidence .work/evidence_backup
for p in "$@"; do
  tools/vcheck.py "$p" > .work/seed_$p.log 2>&1; rc=$?
  echo "== $p exit=$rc"; grep -E "^(VIOLATION|KNOWN-FINDING|C[0-9]+ tier)" .work/seed_$p.log | cut -c1-220 | head -8
done
cd /repo && git checkout -- . 
# evidence written while a seeded change was applied must never be kept
rm -rf /verif/evidence && mv /verif/.work/evidence_backup /verif/evidence
cd /verif && PYTHONPATH=/repo /venv/bin/python tools/gen_layer_g.py --validate 5 > /dev/null 2>&1
rm -rf /verif/replay
