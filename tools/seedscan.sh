#!/bin/bash
# tools/seedscan.sh <seed>: quick tier of all 20 checks with VERIF_SEED=<seed> on a private copy of /verif under
# /tmp/scan_<seed> (reads /repo, writes nothing there or in /verif).  One line per check.  Used to look for false
# alarms of the harnesses under other seeds (the acceptance run exports VERIF_SEED=1).
k=${1:-1}
cd "$(dirname "$0")/.."
rm -rf /tmp/scan_$k; rsync -a --exclude .git --exclude replay --exclude '.work/*' "$(pwd)/" /tmp/scan_$k/; mkdir -p /tmp/scan_$k/.work
for p in C01 C02 C03 C04 C05 C06 C07 C08 C09 C10 C11 C12 C13 C14 C15 C16 C17 C18 C19 C20; do
  VERIF_SEED=$k /tmp/scan_$k/tools/vcheck.py $p > /tmp/scan_$k/.work/out_$p.log 2>&1; rc=$?
  echo "seed=$k $p exit=$rc violation_lines=$(grep -c '^VIOLATION' /tmp/scan_$k/.work/out_$p.log) $(tail -1 /tmp/scan_$k/.work/out_$p.log | cut -c1-110)"
done
