#!/bin/sh
# tools/runlanes.sh [quick|thorough]: all 20 checks on the current tree in four parallel lanes (the properties are
# independent; the Coq build is under a file lock).  One line per check in .work/lanes_<tier>_<k>.log; prints ALLDONE.
T=${1:-quick}
cd "$(dirname "$0")/.."
mkdir -p .work
lane() { for p in "$@"; do tools/vcheck.py $p --tier $T > .work/run_${T}_$p.log 2>&1; echo "$p exit=$? $(tail -1 .work/run_${T}_$p.log)"; done; }
lane C05 C03 C04 C17 C14 > .work/lanes_${T}_1.log 2>&1 &
lane C01 C02 C15 C20 C18 > .work/lanes_${T}_2.log 2>&1 &
lane C06 C07 C08 C09 C10 > .work/lanes_${T}_3.log 2>&1 &
lane C11 C12 C13 C16 C19 > .work/lanes_${T}_4.log 2>&1 &
wait
cat .work/lanes_${T}_*.log
echo ALLDONE
