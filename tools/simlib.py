"""Builders for random jaxley modules and helpers around jx.integrate (implementation side)."""
import contextlib
import io
import itertools
import math
import os
import sys

import implib  # noqa: F401  (configures jax: x64, cpu)
import numpy as np
import jax
import jax.numpy as jnp
import jaxley as jx


@contextlib.contextmanager
def quiet():
    with contextlib.redirect_stdout(io.StringIO()):
        yield


def rand_parents(rng, nb):
    """A sorted parent vector: parents[b] < b."""
    return [-1] + [rng.randint(0, b - 1) for b in range(1, nb)]


def all_parents(nb):
    """All sorted parent vectors with nb branches."""
    if nb == 1:
        return [[-1]]
    return [[-1] + list(p) for p in itertools.product(*[range(b) for b in range(1, nb)])]


def dy(rng, lo, hi, denom=8):
    return rng.randint(int(lo * denom), int(hi * denom)) / denom


def build_cell(rng, parents, counts, hetero=True):
    comp = jx.Compartment()
    branches = [jx.Branch([comp] * c) for c in counts]
    with quiet():
        cell = jx.Cell(branches, parents=list(parents))
    if hetero:
        n = sum(counts)
        with quiet():
            for i in range(n):
                v = cell.select(nodes=[i])
                v.set("radius", dy(rng, 0.25, 4))
                v.set("length", dy(rng, 2, 40))
                v.set("axial_resistivity", float(rng.choice([500, 1000, 2000, 5000, 8000])))
                v.set("capacitance", dy(rng, 0.5, 2))
                v.set("v", dy(rng, -90, -40, 4))
    return cell


def insert_leak(cell, rng, hetero=True):
    from jaxley.channels import Leak
    with quiet():
        cell.insert(Leak())
        if hetero:
            for i in range(len(cell.nodes)):
                v = cell.select(nodes=[i])
                v.set("Leak_gLeak", rng.choice([1, 2, 4, 8]) * 2.0 ** -14)
                v.set("Leak_eLeak", dy(rng, -80, -50, 4))


def factorizations(n_min, max_depth=3, max_total=None, slack=4):
    """checkpoint_lengths with product in [n_min, n_min+slack], depth <= max_depth."""
    out = []
    for total in range(n_min, n_min + slack + 1):
        def rec(rem, depth):
            if depth == 1:
                return [[rem]]
            res = [[rem]]
            for d in range(2, rem):
                if rem % d == 0:
                    for tail in rec(rem // d, depth - 1):
                        res.append([d] + tail)
            return res
        for f in rec(total, max_depth):
            if f not in out:
                out.append(f)
    return out


def snapshot(module):
    """Deep canonical snapshot of everything integrate must not change."""
    def canon(x):
        if hasattr(x, "to_dict") and hasattr(x, "columns"):
            return ("df", list(map(str, x.columns)), [list(map(repr, r)) for r in x.to_numpy().tolist()], list(map(repr, x.index)))
        if isinstance(x, dict):
            return ("dict", [(repr(k), canon(v)) for k, v in x.items()])
        if isinstance(x, (list, tuple)):
            return ("list", [canon(v) for v in x])
        if hasattr(x, "shape"):
            a = np.asarray(x)
            return ("arr", a.shape, a.tobytes().hex() if a.dtype != object else repr(a.tolist()))
        return repr(x)
    keys = ["nodes", "edges", "externals", "external_inds", "recordings", "trainable_params",
            "indices_set_by_trainables", "groups", "allow_make_trainable", "num_trainable_params",
            "membrane_current_names", "synapse_names", "synapse_param_names", "synapse_state_names"]
    base = module.base if hasattr(module, "base") else module
    return {k: canon(getattr(base, k)) for k in keys if hasattr(base, k)}


def diff_snap(a, b):
    return [k for k in a if a[k] != b.get(k)]


def rand_spec(rng, parents, counts, stim=False, uniform=False):
    """A CellSpec with short dyadic parameters (exact in float64)."""
    import cablelib
    n = sum(counts)
    if uniform:
        r, l, ra, cm = [1.0] * n, [10.0] * n, [5000.0] * n, [1.0] * n
    else:
        r = [dy(rng, 0.25, 4) for _ in range(n)]
        l = [dy(rng, 2, 40) for _ in range(n)]
        ra = [float(rng.choice([500, 1000, 2000, 5000, 8000])) for _ in range(n)]
        cm = [dy(rng, 0.5, 2) for _ in range(n)]
    g = [rng.choice([1, 2, 4, 8]) * 2.0 ** -14 for _ in range(n)]
    e = [dy(rng, -80, -50, 4) for _ in range(n)]
    v = [dy(rng, -90, -40, 4) for _ in range(n)]
    i = [0.0] * n
    if stim:
        for k in rng.sample(range(n), min(n, rng.randint(1, 2))):
            i[k] = dy(rng, -1, 1, 16)
    return cablelib.CellSpec(parents, counts, r, l, ra, cm, g, e, v, i)


def cell_from_spec(spec):
    """jx.Cell realising a cablelib.CellSpec (Leak channel, per-compartment parameters)."""
    from jaxley.channels import Leak
    comp = jx.Compartment()
    with quiet():
        cell = jx.Cell([jx.Branch([comp] * c) for c in spec.counts], parents=list(spec.parents))
        cell.insert(Leak())
        for k in range(spec.n):
            vw = cell.select(nodes=[k])
            vw.set("radius", float(spec.r[k]))
            vw.set("length", float(spec.l[k]))
            vw.set("axial_resistivity", float(spec.ra[k]))
            vw.set("capacitance", float(spec.cm[k]))
            vw.set("v", float(spec.v[k]))
            vw.set("Leak_gLeak", float(spec.g[k]))
            vw.set("Leak_eLeak", float(spec.e[k]))
        for k in range(spec.n):
            if spec.i[k] != 0:
                cell.select(nodes=[k]).stimulate(jnp.asarray([float(spec.i[k])]))
        cell.record("v")
    return cell


def one_step(module, dt, solver, voltage_solver):
    """Voltages of all compartments after ONE step (column 1 of the recordings)."""
    with quiet():
        kw = dict(delta_t=dt, solver=solver, voltage_solver=voltage_solver)
        if len(module.externals) == 0:
            kw["t_max"] = 0.0
        out = jx.integrate(module, **kw)
    out = np.asarray(out)
    assert out.shape[1] == 2, out.shape
    return out[:, 1]
