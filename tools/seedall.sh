#!/bin/sh
# re-run every stored seeded change against the current tree with the check of its own property
# (first property named in meta.json "detected_by"); prints one line per seed
cd "$(dirname "$0")/.."
for d in seeded/*/; do
  n=$(basename $d)
  p=$(python3 -c "import json;m=json.load(open('$d/meta.json'));print(' '.join(list(m['detected_by'])[:1]))")
  if ! git -C /repo apply --check "$(pwd)/$d/patch.diff" 2>/dev/null; then echo "$n: PATCH-DOES-NOT-APPLY"; continue; fi
  out=$(tools/seedtest.sh "$(pwd)/$d/patch.diff" $p 2>&1)
  v=$(echo "$out" | grep -c "^VIOLATION")
  echo "$n [$p]: violations_lines=$v $(echo "$out" | grep -E '^== ' | tr '\n' ' ')"
done
