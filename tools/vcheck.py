#!/venv/bin/python
"""Single entry point of the verification machinery.

    vcheck.py Cxx [--tier quick|thorough]
    vcheck.py Cxx --replay FILE

Order of work for one property (DESIGN.md §1.3):
  1. regenerate Layer G from the current /repo (translator validated on the way);
  2. build the Coq theorems of the property (full .vo build, incremental) and collect
     `Print Assumptions` for each of them;
  3. run the property's tie to the code (direct predicate on the implementation /
     correspondence with the executable Coq model);
  4. if a proof obligation or the correspondence broke, search for a failing input;
  5. print KNOWN-FINDING / VIOLATION lines, write evidence/Cxx.json, exit 0/1
     (2 = internal error of the machinery, never hidden).
"""
import argparse
import fcntl
import hashlib
import importlib
import json
import os
import random
import re
import subprocess
import sys
import time
import traceback

HERE = os.path.dirname(os.path.abspath(__file__))
ROOT = os.path.dirname(HERE)
COQ = os.path.join(ROOT, "coq")
WORK = os.path.join(ROOT, ".work")
REPO = os.environ.get("JAXLEY_REPO", "/repo")
PY = "/venv/bin/python"
sys.path.insert(0, HERE)

ENV = dict(os.environ)
ENV.update({"PYTHONPATH": REPO, "PYTHONHASHSEED": "0", "JAX_PLATFORMS": "cpu",
            "JAX_ENABLE_X64": "1", "XLA_FLAGS": ENV.get("XLA_FLAGS", ""),
            "OMP_NUM_THREADS": "2"})

FORBIDDEN = re.compile(r"\b(Admitted|admit|Axiom|Axioms|Parameter|Parameters|Conjecture|"
                       r"Unset\s+Guard|bypass_check|Admit\s+Obligations|"
                       r"Unset\s+Positivity|Unset\s+Universe)\b")


class Ctx:
    def __init__(self, pid, tier, seed):
        self.pid, self.tier, self.seed = pid, tier, seed
        self.rng = random.Random(seed)
        self.t0 = time.time()
        self.gen_status = None
        self.proof = {"obligations": [], "discharged": [], "failed": None,
                      "axioms": {}, "log": ""}
        self.notes = []

    def budget(self, quick, thorough):
        return quick if self.tier == "quick" else thorough


def install_cache_guard():
    """Every jx.integrate call compiles fresh XLA executables (~150 memory maps each); a long
    run exhausts vm.max_map_count (65530) and LLVM dies with 'Cannot allocate memory'.  The
    guard drops JAX's compilation caches between top-level calls when the process holds
    too many maps.  (Machinery only: results are unaffected.)"""
    try:
        import gc
        import jax
        import jaxley
        from jax._src import core as _core
    except Exception:
        return
    if getattr(jaxley.integrate, "_verif_guard", False):
        return
    orig = jaxley.integrate
    state = {"n": 0}

    def nmaps():
        try:
            with open("/proc/self/maps") as f:
                return sum(1 for _ in f)
        except OSError:
            return 0

    def integrate(*a, **k):
        out = orig(*a, **k)
        state["n"] += 1
        try:
            # (not `n % 20 == 0`: a harness whose every 4th call runs under jax.grad would never be checked)
            if state["n"] >= 20 and _core.trace_state_clean():
                state["n"] = 0
                if nmaps() > 25000:
                    jax.clear_caches()
                    gc.collect()
        except Exception:
            pass
        return out
    integrate._verif_guard = True
    jaxley.integrate = integrate


def sh(cmd, cwd=None, timeout=None, env=None):
    p = subprocess.run(cmd, cwd=cwd, timeout=timeout, env=env or ENV, shell=isinstance(cmd, str),
                       stdout=subprocess.PIPE, stderr=subprocess.STDOUT, text=True)
    return p.returncode, p.stdout


class Lock:
    def __enter__(self):
        os.makedirs(WORK, exist_ok=True)
        self.f = open(os.path.join(WORK, "build.lock"), "w")
        fcntl.flock(self.f, fcntl.LOCK_EX)
        return self

    def __exit__(self, *a):
        fcntl.flock(self.f, fcntl.LOCK_UN)
        self.f.close()


def scan_forbidden():
    bad = []
    for d, _, fs in os.walk(COQ):
        for f in fs:
            if f.endswith(".v"):
                txt = open(os.path.join(d, f)).read()
                txt = re.sub(r"\(\*.*?\*\)", "", txt, flags=re.S)
                for m in FORBIDDEN.finditer(txt):
                    bad.append(f"{os.path.relpath(os.path.join(d, f), COQ)}: {m.group(0)}")
    return bad


def regen_layer_g(ctx):
    rc, out = sh([PY, os.path.join(HERE, "gen_layer_g.py"), "--seed", str(ctx.seed),
                  "--validate", "200" if ctx.tier == "quick" else "1000"], timeout=1500)
    st = {}
    try:
        st = json.load(open(os.path.join(COQ, "Gen", "STATUS.json")))
    except Exception:
        pass
    ctx.gen_status = {"rc": rc, "groups": {k: {kk: vv for kk, vv in v.items() if kk != "trace"}
                                           for k, v in st.get("groups", {}).items()},
                      "validation_failures": st.get("validation", {}),
                      "n_validation_evals": st.get("n_validation_evals", 0)}
    if rc == 2:
        print("INTERNAL ERROR: translator validation failed (IR evaluator disagrees with the real function)")
        print(out[-3000:])
        return False
    if rc not in (0, 3):
        print("INTERNAL ERROR: gen_layer_g.py crashed")
        print(out[-3000:])
        return False
    return True


def theorem_names(vfile):
    txt = open(vfile).read()
    txt = re.sub(r"\(\*.*?\*\)", "", txt, flags=re.S)
    return re.findall(r"^\s*(?:Theorem|Example)\s+([A-Za-z0-9_']+)", txt, flags=re.M)


def build_props(ctx, vfiles):
    """vfiles: paths relative to coq/, e.g. ['Props/C14.v'].  Full .vo build."""
    if not os.path.exists(os.path.join(COQ, "Makefile")):
        sh("coq_makefile -f _CoqProject -o Makefile", cwd=COQ, timeout=120)
    names = []
    for vf in vfiles:
        names += [(vf, n) for n in theorem_names(os.path.join(COQ, vf))]
    ctx.proof["obligations"] = [n for _, n in names]
    targets = [vf[:-2] + ".vo" for vf in vfiles]
    rc, out = sh(["timeout", "1500", "make", "-j16"] + targets, cwd=COQ, timeout=1600)
    ctx.proof["log"] = out[-4000:]
    if rc != 0:
        # which theorem is the first that fails?
        m = re.search(r'File "\./([^"]+)", line (\d+)', out)
        failed = "build"
        if m:
            f, line = m.group(1), int(m.group(2))
            failed = f"{f}:{line}"
            try:
                src = open(os.path.join(COQ, f)).read().split("\n")[:line]
                for l in reversed(src):
                    mm = re.match(r"\s*(?:Theorem|Lemma|Example|Definition|Corollary)\s+([A-Za-z0-9_']+)", l)
                    if mm:
                        failed = f"{f}:{line} ({mm.group(1)})"
                        break
            except Exception:
                pass
        else:
            mm = re.search(r"No rule to make target '([^']+)'", out)
            if mm:
                failed = f"missing {mm.group(1)} (translation failed closed)"
        ctx.proof["failed"] = failed
        return False
    # axioms: one coqc run printing the assumptions of every theorem
    os.makedirs(WORK, exist_ok=True)
    ax = os.path.join(WORK, f"Axioms_{ctx.pid}.v")
    with open(ax, "w") as f:
        for vf in vfiles:
            mod = vf[:-2].replace("/", ".")
            f.write(f"From JV Require {mod.split('.')[-1]}.\n")
        for vf, n in names:
            mod = vf[:-2].split("/")[-1]
            f.write(f'Goal True. idtac "@@ {n}". exact I. Qed.\nPrint Assumptions {mod}.{n}.\n')
    rc, out = sh(["timeout", "600", "coqc", "-R", COQ, "JV", ax], cwd=WORK, timeout=700)
    if rc != 0:
        ctx.proof["failed"] = "Print Assumptions run failed: " + out[-500:]
        return False
    cur = None
    for line in out.split("\n"):
        if line.startswith("@@ "):
            cur = line[3:].strip()
            ctx.proof["axioms"][cur] = []
        elif cur and re.match(r"^[A-Za-z_][A-Za-z0-9_.']*\s*(:|$)", line) and not line.startswith("Axioms"):
            ctx.proof["axioms"][cur].append(line.split(":")[0].strip())
    ctx.proof["discharged"] = [n for _, n in names if n in ctx.proof["axioms"]]
    for fn in (ax, ax[:-2] + ".vo", ax[:-2] + ".glob", ax[:-2] + ".vok", ax[:-2] + ".vos",
               os.path.join(WORK, f".Axioms_{ctx.pid}.aux")):
        if os.path.exists(fn):
            os.remove(fn)
    return len(ctx.proof["discharged"]) == len(ctx.proof["obligations"])


def load_known():
    p = os.path.join(ROOT, "known_findings.json")
    if os.path.exists(p):
        return json.load(open(p))
    return {"findings": [], "fixed": []}


def match_known(pid, v, known):
    for k in known.get("findings", []):
        if k.get("status") != "known" or pid not in k.get("properties", [k.get("property")]):
            continue
        if k.get("class") and k["class"] == v.get("finding_class"):
            return k
    return None


def write_replay(pid, v):
    os.makedirs(os.path.join(ROOT, "replay"), exist_ok=True)
    blob = json.dumps(v, sort_keys=True, default=str)
    h = hashlib.sha1(blob.encode()).hexdigest()[:10]
    p = os.path.join(ROOT, "replay", f"{pid}-{h}.json")
    v = dict(v)
    v["property"] = pid
    v["replay_cmd"] = f"tools/vcheck.py {pid} --replay {p}"
    with open(p, "w") as f:
        json.dump(v, f, indent=1, default=str)
    return p


def main():
    ap = argparse.ArgumentParser()
    ap.add_argument("pid")
    ap.add_argument("--tier", default=os.environ.get("VERIF_TIER", "quick"))
    ap.add_argument("--replay")
    a = ap.parse_args()
    tier = os.environ.get("VERIF_TIER") or a.tier
    if tier not in ("quick", "thorough"):
        tier = "quick"
    seed = int(os.environ.get("VERIF_SEED", "0") or 0)
    pid = a.pid.upper()
    ctx = Ctx(pid, tier, seed)
    os.environ.update({k: ENV[k] for k in ("PYTHONPATH", "PYTHONHASHSEED", "JAX_PLATFORMS", "JAX_ENABLE_X64")})
    sys.path.insert(0, REPO)
    mod = importlib.import_module(f"props.{pid.lower()}")

    if a.replay:
        case = json.load(open(a.replay))
        res = mod.replay(ctx, case)
        print(json.dumps(res, indent=1, default=str))
        if res.get("violated"):
            print(f"VIOLATION property={pid} replay={a.replay}")
            sys.exit(1)
        sys.exit(0)

    internal_error = False
    bad = scan_forbidden()
    if bad:
        print("INTERNAL ERROR: forbidden declarations in the Coq development:", bad)
        internal_error = True

    proof_ok = True
    with Lock():
        if getattr(mod, "NEEDS_GEN", False):
            if not regen_layer_g(ctx):
                internal_error = True
        try:
            proof_ok = build_props(ctx, mod.PROP_FILES)
        except subprocess.TimeoutExpired:
            proof_ok = False
            ctx.proof["failed"] = "timeout"
    ctx.proof_ok = proof_ok

    # the tie to the code / direct predicate / search
    install_cache_guard()
    try:
        res = mod.run(ctx)
    except Exception as ex:
        tb = traceback.extract_tb(sys.exc_info()[2])
        in_repo = [f for f in tb if f.filename.startswith(REPO + os.sep)]
        if in_repo:
            # the implementation raised on an input the harness built: that is a finding about
            # the code, not about the machinery
            res = {"evaluations": 1, "distinct_nontrivial": 0, "rule": "harness aborted by an exception raised in the implementation",
                   "samples": [], "violations": [{"kind": "implementation raised", "error": repr(ex)[:500],
                                                  "where": f"{in_repo[-1].filename}:{in_repo[-1].lineno} ({in_repo[-1].name})",
                                                  "harness_frame": f"{tb[1].filename}:{tb[1].lineno}" if len(tb) > 1 else "",
                                                  "finding_class": None}]}
        else:
            # the harness itself raised, outside the implementation: on the unchanged tree this does not happen, so the
            # correspondence between model and code can no longer be evaluated -> the property is no longer shown to
            # hold; reported as a violation without a failing input (and as an internal error in the log)
            traceback.print_exc()
            print("INTERNAL ERROR: harness crashed")
            res = {"evaluations": 0, "distinct_nontrivial": 0, "rule": "harness crashed",
                   "samples": [], "violations": [{"kind": "the correspondence check could not be evaluated: the harness raised outside the implementation",
                                                  "error": repr(ex)[:500], "trace": traceback.format_exc()[-1500:],
                                                  "no_failing_input_found": True, "finding_class": None}]}
            internal_error = True

    known = load_known()
    violations = list(res.get("violations", []))
    if not proof_ok and not violations:
        violations.append({"kind": "proof-obligation",
                           "what": f"theorem no longer checks: {ctx.proof['failed']}",
                           "theorems": ctx.proof["obligations"],
                           "coq_log_tail": ctx.proof["log"][-1500:],
                           "no_failing_input_found": True})
    elif not proof_ok:
        for v in violations:
            v.setdefault("broken_obligation", ctx.proof["failed"])
    n_unlisted = 0
    known_hits = []
    seen_known = set()
    for v in violations:
        k = match_known(pid, v, known)
        if k:
            if k["id"] not in seen_known:
                seen_known.add(k["id"])
                print(f"KNOWN-FINDING: property={pid} {k['id']}: {k['what']}")
            known_hits.append(k["id"])
            continue
        n_unlisted += 1
        path = write_replay(pid, v)
        tail = " no-failing-input-found" if v.get("no_failing_input_found") else ""
        print(f"VIOLATION property={pid} replay={path}{tail}")
        if n_unlisted >= 5:
            break
    if not proof_ok and n_unlisted == 0 and violations:
        # every violation the harness found is a listed known finding, but a proof obligation is broken: the
        # property is no longer shown to hold, and a known finding must not mask that
        v = {"kind": "proof-obligation", "what": f"theorem no longer checks: {ctx.proof['failed']}",
             "theorems": ctx.proof["obligations"], "coq_log_tail": ctx.proof["log"][-1500:], "no_failing_input_found": True}
        violations.append(v)
        n_unlisted += 1
        path = write_replay(pid, v)
        print(f"VIOLATION property={pid} replay={path} no-failing-input-found")

    trusted = sorted({ax for axs in ctx.proof["axioms"].values() for ax in axs})
    cov = {
        "obligations": max(1, len(ctx.proof["obligations"])),
        "discharged": len(ctx.proof["discharged"]),
        "checker_cmd": "make -j16 " + " ".join(f[:-2] + ".vo" for f in mod.PROP_FILES)
                       + " (coqc 8.16.1, full .vo build) ; Print Assumptions per theorem",
        "trusted_base": ["Coq 8.16.1 kernel (vm_compute used; native_compute not used)"] + trusted
                        + list(getattr(mod, "TRUSTED", [])),
        "theorems": ctx.proof["obligations"],
        "axioms_per_theorem": ctx.proof["axioms"],
        "first_failing_obligation": ctx.proof["failed"],
        "evaluations": int(res.get("evaluations", 0)),
        "distinct_nontrivial": int(res.get("distinct_nontrivial", 0)),
        "rule": res.get("rule", ""),
        "samples": res.get("samples", [])[:5] or ctx.proof["obligations"][:3],
        "traces_validated_against_impl": int(res.get("traces_validated_against_impl", res.get("evaluations", 0))),
        "layer_g": ctx.gen_status,
        "known_findings_hit": sorted(set(known_hits)),
    }
    for k, val in res.items():
        if k not in cov and k not in ("violations",):
            cov[k] = val
    ev = {"property_id": pid, "tier": tier, "seed": seed, "level": "proof",
          "coverage": cov,
          "assumptions": list(getattr(mod, "ASSUMPTIONS", [])),
          "wall_s": round(time.time() - ctx.t0, 2),
          "violations": n_unlisted}
    os.makedirs(os.path.join(ROOT, "evidence"), exist_ok=True)
    with open(os.path.join(ROOT, "evidence", f"{pid}.json"), "w") as f:
        json.dump(ev, f, indent=1, default=str)
    print(f"{pid} tier={tier} seed={seed} obligations={cov['obligations']} discharged={cov['discharged']} "
          f"evaluations={cov['evaluations']} violations={n_unlisted} wall={ev['wall_s']}s")
    if n_unlisted:
        sys.exit(1)
    sys.exit(2 if internal_error else 0)


if __name__ == "__main__":
    main()
