"""Independent reference for SWC import (C16): declarative sectioning of a well-formed SWC
tree into maximal unbranched same-type paths, path lengths under the documented
conventions, radius interpolation at compartment centres, type groups."""
import math
import random


def random_swc(rng, single_point_soma=None, max_points=40, dense=False):
    """rows (id, type, x, y, z, r, parent), depth-first, parents before children."""
    rows = []
    sp = rng.random() < 0.4 if single_point_soma is None else single_point_soma

    def add(t, parent, pos, r):
        i = len(rows) + 1
        rows.append([i, t, pos[0], pos[1], pos[2], r, parent])
        return i

    def step(pos, scale):
        return [pos[0] + rng.choice([1, 2, 3]) * scale * rng.choice([-1, 1]), pos[1] + rng.choice([0, 1, 2]) * scale, pos[2] + rng.choice([0, 1]) * scale]

    root = add(1, -1, [0.0, 0.0, 0.0], rng.choice([4.0, 6.0, 8.0]))
    soma_end = root
    pos = [0.0, 0.0, 0.0]
    if not sp:
        for _ in range(rng.randint(1, 3)):
            pos = step(pos, 2.0)
            soma_end = add(1, soma_end, pos, rng.choice([3.0, 4.0, 5.0]))

    def grow(parent, ppos, t, depth):
        if len(rows) >= max_points:
            return
        cur, p = parent, ppos
        for _ in range(rng.randint(8, 12) if dense else rng.randint(1, 4)):
            p = step(p, 1.0 if dense else 5.0)
            cur = add(t, cur, p, rng.choice([0.25, 0.5, 1.0, 1.5]))
        if depth < 3 and rng.random() < 0.7:
            for _ in range(rng.choice([2, 2, 3])):
                t2 = t if rng.random() < 0.7 else rng.choice([2, 3, 4, 2, 3, 4, 5, 6, 7])
                grow(cur, p, t2, depth + 1)

    starts = [soma_end] if rng.random() < 0.5 else [root, soma_end]
    for _ in range(rng.randint(1, 3)):
        s = rng.choice(starts)
        grow(s, [rows[s - 1][2], rows[s - 1][3], rows[s - 1][4]], rng.choice([2, 3, 4, 2, 3, 4, 6]), 0)
    return rows


def write_swc(rows, path):
    with open(path, "w") as f:
        f.write("# generated\n")
        for r in rows:
            f.write(f"{int(r[0])} {int(r[1])} {r[2]} {r[3]} {r[4]} {r[5]} {int(r[6])}\n")


def sections(rows):
    """maximal unbranched same-type paths; each section = [anchor, p1, p2, ...] where anchor is
    the point the section hangs on (its parent point), except for the section containing the root."""
    n = len(rows)
    typ = {int(r[0]): int(r[1]) for r in rows}
    par = {int(r[0]): int(r[6]) for r in rows}
    kids = {}
    for r in rows:
        kids.setdefault(int(r[6]), []).append(int(r[0]))
    single_point_soma = typ[1] == 1 and n > 1 and typ[2] != 1

    def continues(c):
        p = par[c]
        return p != -1 and len(kids.get(p, [])) == 1 and typ[c] == typ[p]

    secs, types = [], []
    if single_point_soma:
        secs.append([1]); types.append(1)
    for c in sorted(typ):
        if c == 1:
            continue
        if not continues(c):
            s = [par[c], c]
            cur = c
            while len(kids.get(cur, [])) == 1 and typ[kids[cur][0]] == typ[cur]:
                cur = kids[cur][0]
                s.append(cur)
            secs.append(s); types.append(typ[c])
    # the root continues into its only same-type child: that section starts at the root itself
    if not single_point_soma and len(kids.get(1, [])) == 1 and typ[kids[1][0]] == typ[1]:
        s = [1]
        cur = 1
        while len(kids.get(cur, [])) == 1 and typ[kids[cur][0]] == typ[cur]:
            cur = kids[cur][0]
            s.append(cur)
        secs.append(s); types.append(typ[1])
    order = sorted(range(len(secs)), key=lambda k: (secs[k][0], secs[k][1] if len(secs[k]) > 1 else 0))
    secs = [secs[k] for k in order]
    types = [types[k] for k in order]
    last = [s[-1] for s in secs]
    parents = []
    for i, s in enumerate(secs):
        js = [j for j in range(len(secs)) if last[j] == s[0] and j != i]
        parents.append(js[0] if js else -1)
    return secs, types, parents, single_point_soma


def lengths_and_radii(rows, secs, types, parents, single_point_soma, ncomp, min_radius=None):
    xyz = {int(r[0]): (r[2], r[3], r[4]) for r in rows}
    rad = {int(r[0]): r[5] for r in rows}
    typ = {int(r[0]): int(r[1]) for r in rows}
    L, R = [], []
    for i, s in enumerate(secs):
        if len(s) == 1:
            seg = [2 * rad[s[0]]]
        else:
            pts = [xyz[p] for p in s]
            if typ[s[0]] == 1 and typ[s[1]] != 1 and single_point_soma:
                pts[0] = pts[1]              # gap between a single-point soma and the neurite is ignored
            seg = [math.dist(a, b) for a, b in zip(pts[:-1], pts[1:])]
        total = sum(seg)
        L.append(total if total != 0.0 else 1.0)
        rs = [rad[p] for p in s]
        if len(s) > 1 and typ[s[0]] != types[i]:
            rs[0] = rs[1]                    # the point shared with the parent has another type: the section uses its own radius
                                             # there (also for a neurite on the FIRST point of a multi-point soma, F45)
        seg2 = [max(x, 1e-8) for x in seg]
        tot2 = sum(seg2)
        cut = [0.0]
        for x in seg2:
            cut.append(cut[-1] + x)
        cut = [c / tot2 for c in cut]
        if len(rs) == 1:
            rs = rs * 2
        out = []
        for k in range(ncomp):
            loc = (k + 0.5) / ncomp
            j = max(j for j in range(len(cut) - 1) if cut[j] <= loc or j == 0)
            w = (loc - cut[j]) / (cut[j + 1] - cut[j])
            val = rs[j] + (rs[j + 1] - rs[j]) * w
            if min_radius is not None and val < min_radius:
                val = min_radius
            out.append(val)
        R.append(out)
    return L, R


def full_reference(rows, ncomp, min_radius=None):
    secs, types, parents, sps = sections(rows)
    L, R = lengths_and_radii(rows, secs, types, parents, sps, ncomp, min_radius)
    rad1 = rows[0][5]
    if sum(1 for p in parents if p == -1) > 1:
        parents = [-1] + [p + 1 for p in parents]
        L = [0.1] + L
        R = [[rad1 if (min_radius is None or rad1 >= min_radius) else min_radius] * ncomp] + R
        types = [5] + types
        secs = [[0]] + secs
    return {"sections": secs, "types": types, "parents": parents, "lengths": L, "radii": R}
