"""C03 — gates stay finite and in [0,1] and follow the exact exponential update."""
import math

PROP_FILES = ["Props/C03.v"]
NEEDS_GEN = True
TRUSTED = ["tools/jaxpr2coq.py + tools/gen_layer_g.py (jaxpr -> Coq translator, validated each run against the real functions)",
           "jax.make_jaxpr as a faithful account of the traced computation"]
ASSUMPTIONS = ["theorems are about the real-number semantics of the traced update_states; float64 rounding is not formalised and is bounded by the direct predicate on the implementation (every sampled double incl. singular voltages +-1 ulp)"]

IT_FORM = {"Km", "CaT"}          # gates returning (x_inf, tau) rather than (alpha, beta)


def mechanisms():
    from jaxley.channels import HH, Leak, Na, K, Km, CaL, CaT
    return [HH, Leak, Na, K, Km, CaL, CaT]


def sing_voltages(params):
    vt = params.get("vt", -60.0)
    vx = next((v for k, v in params.items() if k.endswith("_vx")), 2.0)
    return [-40.0, -55.0, -35.0, -65.0, -27.0, -75.0, -13.0, -15.0, vt + 13, vt + 40, vt + 15,
            vt + 17, vt + 10, -81 - vx, -84 - vx, -113.2 - vx, -57 - vx, -200.0, 200.0]


def sample_v(rng, params):
    import numpy as np
    r = rng.random()
    s = sing_voltages(params)
    if r < 0.35:
        x = rng.choice(s)
        k = rng.choice([0, 0, 1, -1, 2, -2])
        for _ in range(abs(k)):
            x = float(np.nextafter(x, math.inf if k > 0 else -math.inf))
        return min(200.0, max(-200.0, x))
    if r < 0.5:
        return min(200.0, max(-200.0, rng.choice(s) + rng.choice([-1, 1]) * 10 ** rng.uniform(-9, -4)))
    return rng.uniform(-200, 200)


def sample_params(rng, ch):
    p = {}
    for k, d in ch.channel_params.items():
        if k == "vt":
            p[k] = rng.choice([-60.0, -63.0, float(rng.randint(-280, -200)) / 4])
        elif k.endswith("_vx"):
            p[k] = rng.choice([2.0, 0.0, float(rng.randint(-20, 20)) / 4])
        elif k.endswith("_taumax"):
            p[k] = rng.choice([4000.0, 1000.0, 608.0, 10.0 ** rng.uniform(0, 4)])
        else:
            p[k] = d * rng.choice([1.0, 0.5, 2.0, 10.0])
    return p


def gate_of(cls, ch, sname, v, params):
    """(x_inf, tau) of state `sname` from the class's own *_gate function."""
    g = getattr(cls, sname + "_gate")
    import inspect
    sig = list(inspect.signature(g).parameters)
    args = []
    for a in sig:
        if a == "v":
            args.append(v)
        elif a in params:
            args.append(params[a])
        else:
            args.append(params[ch._name + "_" + a])
    a, b = (float(x) for x in g(*args))
    if cls.__name__ in IT_FORM:
        return a, b
    return a / (a + b), 1.0 / (a + b)


def check_update(x, new, xinf, tau, dt):
    if not (math.isfinite(new) and 0.0 <= new <= 1.0):
        return "not finite / outside [0,1]"
    if not (math.isfinite(xinf) and math.isfinite(tau) and tau > 0 and 0 <= xinf <= 1):
        return "rates not positive / steady state outside [0,1]"
    lo, hi = min(x, xinf), max(x, xinf)
    if not (lo - 1e-12 <= new <= hi + 1e-12):
        return "moved past the steady state or away from it"
    want = xinf + (x - xinf) * math.exp(-dt / tau)
    if abs(new - want) > 1e-9:
        return "differs from the closed-form ODE solution"
    return None


def float_unit_interval_cases(viol):
    """The float face of `gates stay in [0,1]` (theorems C03_update_in_unit_interval_binary64/32): the two exponential
    updates of solver_gate.py, in float32 AND float64, at the corners where rounding could push the convex combination
    out of the interval: x, x_inf in {0, tiny, 1 - ulp, 1}, dt/tau from 1e-9 (decay factor 1 - ulp) to 1e3 (factor 0)."""
    import numpy as np
    import jax.numpy as jnp
    from jaxley.solver_gate import exponential_euler, solve_inf_gate_exponential
    n = 0
    for dtype in (np.float32, np.float64):
        one = dtype(1.0)
        corners = [dtype(0.0), np.finfo(dtype).tiny, np.nextafter(one, dtype(0.0)), one, dtype(0.5), dtype(1.0) / dtype(3.0)]
        ratios = np.concatenate([10.0 ** np.linspace(-9, 3, 97), [np.finfo(dtype).eps, np.finfo(dtype).eps / 2, 0.6931471805599453]]).astype(dtype)
        X, I, Rr = np.meshgrid(np.asarray(corners, dtype=dtype), np.asarray(corners, dtype=dtype), ratios, indexing="ij")
        x, xi, r = (jnp.asarray(a.reshape(-1), dtype=dtype) for a in (X, I, Rr))
        for name, out in (("exponential_euler", exponential_euler(x, r, xi, jnp.ones_like(r))),
                          ("solve_inf_gate_exponential", solve_inf_gate_exponential(x, r, xi, jnp.ones_like(r)))):
            out = np.asarray(out)
            n += out.size
            bad = np.nonzero(~(np.isfinite(out) & (out >= 0) & (out <= 1)))[0]
            if out.dtype != dtype:
                continue        # x64 disabled: the float64 sweep ran in float32, already covered
            for k in bad[:3]:
                viol.append({"kind": "gate update leaves [0,1] in floating point", "function": name, "dtype": np.dtype(dtype).name,
                             "x": float(X.reshape(-1)[k]), "x_inf": float(I.reshape(-1)[k]), "dt_over_tau": float(Rr.reshape(-1)[k]),
                             "new": float(out[k]), "finding_class": None})
    return n


def run(ctx):
    import numpy as np
    from jaxley.synapses import IonotropicSynapse, TestSynapse
    rng = ctx.rng
    broken = not ctx.proof_ok
    n = ctx.budget(60, 800) * (3 if broken else 1)
    viol, samples, distinct = [], [], set()
    evals = 0
    for cls in mechanisms():
        for i in range(n if cls().channel_states else 2):
            ch = cls()
            if rng.random() < 0.25:
                ch.change_name("zz" + cls.__name__)
            params = sample_params(rng, ch)
            v = sample_v(rng, params)
            dt = rng.choice([0.025, 1000.0, 10 ** rng.uniform(-4, 3)])
            states = {k: rng.choice([0.0, 1.0, rng.random(), rng.random()]) for k in ch.channel_states}
            case = {"mechanism": cls.__name__, "name": ch._name, "v": v, "dt": dt, "params": params, "states": states}
            try:
                new = {k: float(x) for k, x in ch.update_states(dict(states), dt, v, params).items()}
            except Exception as ex:
                viol.append(dict(case, kind="update_states raised", error=repr(ex)))
                continue
            evals += 1
            case["new"] = new
            if len(samples) < 3 and states:
                samples.append(case)
            for k in ch.channel_states:
                sname = k[len(ch._name) + 1:]
                distinct.add((cls.__name__, sname, v, dt))
                if k not in new:
                    viol.append(dict(case, kind="state not returned: " + k))
                    continue
                try:
                    xinf, tau = gate_of(cls, ch, sname, v, params)
                except Exception as ex:
                    viol.append(dict(case, kind="gate function raised", error=repr(ex)))
                    continue
                why = check_update(states[k], new[k], xinf, tau, dt)
                if why:
                    viol.append(dict(case, kind=why, state=k, xinf=xinf, tau=tau))
                    break
                # independent closed form: rates from the transcription of the published equations
                # (expm1-based, smooth through the removable singularities), on [-150, 100] mV and
                # outside the region of the known finding F15
                import published
                key = (cls.__name__, sname)
                if key in published.RATES and -150.0 <= v <= 100.0:
                    pp = {kk[len(ch._name) + 1:] if kk.startswith(ch._name + "_") else kk: vv for kk, vv in params.items()}
                    if cls.__name__ == "CaT" and v + pp.get("vx", 2.0) > -20.0:
                        continue
                    try:
                        a_, b_ = published.RATES[key](v, pp)
                    except OverflowError:
                        continue
                    xi2, ta2 = (a_, b_) if cls.__name__ in IT_FORM else (a_ / (a_ + b_), 1.0 / (a_ + b_))
                    want2 = xi2 + (states[k] - xi2) * math.exp(-dt / ta2)
                    if abs(new[k] - want2) > 1e-6:
                        viol.append(dict(case, kind="differs from the closed-form ODE solution computed with independently evaluated rates",
                                         state=k, got=new[k], closed_form=want2, xinf=xi2, tau=ta2, xinf_of_class_gate=xinf, tau_of_class_gate=tau))
                        break
    for cls in (IonotropicSynapse, TestSynapse):
        for i in range(n):
            sy = cls()
            params = {k: d for k, d in sy.synapse_params.items()}
            for k in params:
                if k.endswith("k_minus"):
                    params[k] = rng.choice([0.025, 10 ** rng.uniform(-4, 1)])
            vpre = sample_v(rng, {})
            vpost = rng.uniform(-200, 200)
            dt = rng.choice([0.025, 1000.0, 10 ** rng.uniform(-4, 3)])
            states = {k: rng.choice([0.0, 1.0, rng.random()]) for k in sy.synapse_states}
            case = {"mechanism": cls.__name__, "v_pre": vpre, "v_post": vpost, "dt": dt, "params": params, "states": states}
            try:
                new = {k: float(x) for k, x in sy.update_states(dict(states), dt, vpre, vpost, params).items()}
            except Exception as ex:
                viol.append(dict(case, kind="update_states raised", error=repr(ex)))
                continue
            evals += 1
            sinf = 1.0 / (1.0 + math.exp(min((-35.0 - vpre) / 10.0, 20.0)))
            kminus = next((v for k, v in params.items() if k.endswith("k_minus")), 0.025)
            tau = (1.0 - sinf) / kminus
            for k in states:
                distinct.add((cls.__name__, vpre, dt))
                why = check_update(states[k], new[k], sinf, tau, dt) if tau > 0 else (
                    None if (math.isfinite(new[k]) and 0 <= new[k] <= 1) else "not finite / outside [0,1]")
                if why:
                    viol.append(dict(case, kind=why, state=k, new=new, xinf=sinf, tau=tau))
    try:
        evals += float_unit_interval_cases(viol)
    except Exception as ex:
        import traceback
        viol.append({"kind": "float unit-interval cases raised", "error": repr(ex)[:300], "trace": traceback.format_exc()[-500:]})
    for v in viol:
        v.setdefault("finding_class", None)
    return {"evaluations": evals, "distinct_nontrivial": len(distinct),
            "rule": "update_states of every built-in mechanism at (v incl. singular voltages +-k ulp and range ends, dt in (0,1000], state in {0,1,random}, parameters incl. vt/vx/taumax/k_minus), against the closed form with the class's own rates AND with independently evaluated (expm1-based) published rates on [-150,100] mV; distinct by (mechanism, gate, v, dt)",
            "samples": samples, "violations": viol[:20]}


def replay(ctx, case):
    cls = {c.__name__: c for c in mechanisms()}.get(case.get("mechanism"))
    if cls is None:
        return {"violated": False, "note": "synapse case: re-run the check with the same VERIF_SEED"}
    ch = cls()
    if case.get("name") and case["name"] != ch._name:
        ch.change_name(case["name"])
    new = {k: float(x) for k, x in ch.update_states(dict(case["states"]), case["dt"], case["v"], case["params"]).items()}
    bad = None
    for k in ch.channel_states:
        sname = k[len(ch._name) + 1:]
        xinf, tau = gate_of(cls, ch, sname, case["v"], case["params"])
        bad = bad or check_update(case["states"][k], new[k], xinf, tau, case["dt"])
    return {"violated": bool(bad), "why": bad, "new": new}
