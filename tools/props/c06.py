"""C06 — results do not depend on how the simulation is executed."""
import math

PROP_FILES = ["Props/C06.v"]
NEEDS_GEN = False
TRUSTED = ["XLA/jit/vmap preserve the semantics of a pure traced function (tested here, not proved)",
           "jax.checkpoint is semantically the identity", "Model/Scan.v mirrors jax_utils.nested_checkpoint_scan and the time loop of integrate by hand"]
ASSUMPTIONS = ["partial: the theorem covers the checkpointing/padding logic for any nesting depth; eager vs jit vs vmap agreement and the purity of integrate are decided by the direct predicate on sampled models"]


def run(ctx):
    import numpy as np
    import jax
    import jax.numpy as jnp
    import jaxley as jx
    import simlib
    from simlib import quiet
    from jaxley.channels import HH
    rng = ctx.rng
    viol, samples, distinct = [], [], set()
    evals = 0
    evc = [0]
    ncells = ctx.budget(4, 30)
    for ci in range(ncells):
        nb = rng.randint(1, 4)
        parents = simlib.rand_parents(rng, nb)
        counts = [rng.randint(1, 3) for _ in range(nb)]
        cell = simlib.build_cell(rng, parents, counts)
        use_hh = rng.random() < 0.5
        with quiet():
            if use_hh:
                cell.insert(HH())
            else:
                simlib.insert_leak(cell, rng)
        n = sum(counts)
        nsteps = rng.randint(3, 7)
        dt = 0.025
        stim_rows = sorted(rng.sample(range(n), min(n, rng.randint(1, 2))))
        clamp_row = rng.choice(range(n)) if rng.random() < 0.6 else None
        with quiet():
            cell.select(nodes=stim_rows).stimulate(jnp.asarray([[simlib.dy(rng, -1, 1, 16) for _ in range(nsteps)] for _ in stim_rows]) if len(stim_rows) > 1
                                                   else jnp.asarray([simlib.dy(rng, -1, 1, 16) for _ in range(nsteps)]))
            if clamp_row is not None and use_hh:
                cell.select(nodes=[clamp_row]).clamp("HH_m", jnp.asarray([0.3] * nsteps))
            elif clamp_row is not None:
                cell.select(nodes=[clamp_row]).clamp("v", jnp.asarray([-61.0] * nsteps))
            cell.record("v")
            if use_hh:
                cell.select(nodes=[0]).record("HH_m")
            cell.select(nodes=[rng.randrange(n)]).make_trainable("radius")
            if rng.random() < 0.5:
                cell.make_trainable("length")
        params = cell.get_parameters()
        case = {"parents": parents, "counts": counts, "hh": use_hh, "nsteps": nsteps, "stim_rows": stim_rows, "clamp_row": clamp_row}
        vs = rng.choice(["jaxley.thomas", "jaxley.stone", "jax.sparse"])
        solver = rng.choice(["bwd_euler", "crank_nicolson"])
        case.update(voltage_solver=vs, solver=solver)
        kw = dict(delta_t=dt, voltage_solver=vs, solver=solver)
        snap0 = simlib.snapshot(cell)
        try:
            with quiet():
                ref = np.asarray(jx.integrate(cell, params, **kw))
        except Exception as ex:
            viol.append(dict(case, kind="plain integrate raised", error=repr(ex)[:300]))
            continue
        evals += 1
        scale = max(1.0, float(np.abs(ref).max()))
        if len(samples) < 2:
            samples.append(dict(case, first_row=ref[0].tolist()))
        try:
            _rest(ctx, rng, cell, params, kw, vs, case, ref, scale, snap0, nsteps, parents, counts, use_hh, viol, distinct, evc)
        except Exception as ex:
            import traceback as _tb
            viol.append(dict(case, kind="a later integrate call raised", error=repr(ex)[:300], trace=_tb.format_exc()[-600:]))
    # ---- networks: stimuli, clamps of voltages and of SYNAPTIC states (interleaved synapse types, so that
    #      global edge index != index within the synapse type), repeated / jitted / checkpointed calls
    from jaxley.connect import connect
    from jaxley.synapses import IonotropicSynapse, TestSynapse
    PATTERNS = [[IonotropicSynapse, TestSynapse, TestSynapse, TestSynapse], [TestSynapse, IonotropicSynapse, IonotropicSynapse],
                [IonotropicSynapse, TestSynapse, IonotropicSynapse, TestSynapse]]
    for ni in range(ctx.budget(3, 12)):
        tys = PATTERNS[ni % len(PATTERNS)] if ni < 2 * len(PATTERNS) else [rng.choice([IonotropicSynapse, TestSynapse]) for _ in range(rng.randint(2, 5))]
        nsteps = rng.randint(3, 6)
        comp = jx.Compartment()
        try:
            with quiet():
                net = jx.Network([jx.Cell([jx.Branch([comp] * 2)], parents=[-1]) for _ in range(3)])
                net.insert(HH())
                pairs = []
                for t in tys:
                    a, b = rng.sample(range(6), 2)
                    connect(net.select(nodes=[a]), net.select(nodes=[b]), t())
                    pairs.append((a, b))
                for k in range(6):
                    net.select(nodes=[k]).set("v", -70.0 + 5 * k)
                state_of = {IonotropicSynapse: "IonotropicSynapse_s", TestSynapse: "TestSynapse_c"}
                for e, t in enumerate(tys):
                    net.select(edges=[e]).set(state_of[t], 0.1 + 0.1 * e)
                # clamp the LAST synapse of a type that is preceded by synapses of the other type
                cl = max(e for e, t in enumerate(tys) if any(t2 is not t for t2 in tys[:e])) if len(set(tys)) > 1 else len(tys) - 1
                net.select(edges=[cl]).clamp(state_of[tys[cl]], jnp.asarray([0.77] * nsteps))
                net.select(nodes=[0]).stimulate(jnp.asarray([0.5] * nsteps))
                if rng.random() < 0.5:
                    net.select(nodes=[3]).clamp("v", jnp.asarray([-55.0] * nsteps))
                net.record("v")
                for e, t in enumerate(tys):
                    net.select(edges=[e]).record(state_of[t])
            case = {"network": "3 cells x 2 comps", "edge_types": [t.__name__ for t in tys], "pairs": pairs, "clamped_edge": cl, "nsteps": nsteps}
            distinct.add(("net", tuple(case["edge_types"]), cl, nsteps))
            kw = dict(delta_t=0.025, voltage_solver=rng.choice(["jaxley.thomas", "jax.sparse"]))
            snap0 = simlib.snapshot(net)
            with quiet():
                ref = np.asarray(jx.integrate(net, **kw))
            evals += 1
            row = 6 + cl
            if np.abs(ref[row, 1:] - 0.77).max() > 1e-12:
                viol.append(dict(case, kind="the clamped synaptic state does not follow its clamp", got=ref[row].tolist()))
            d = simlib.diff_snap(snap0, simlib.snapshot(net))
            if d:
                viol.append(dict(case, kind="integrate changed the module", changed=d))
            outs = {}
            with quiet():
                outs["repeated"] = np.asarray(jx.integrate(net, **kw))
                outs["jit"] = np.asarray(jax.jit(lambda: jx.integrate(net, **kw))())
                outs["third call"] = np.asarray(jx.integrate(net, **kw))
                for clens in simlib.factorizations(nsteps, 2, slack=1)[1:3]:
                    outs[f"checkpoint_lengths={clens}"] = np.asarray(jx.integrate(net, checkpoint_lengths=clens, **kw))
            evals += len(outs)
            for how, o in outs.items():
                if o.shape != ref.shape or np.abs(o - ref).max() > 1e-9 * max(1.0, float(np.abs(ref).max())):
                    viol.append(dict(case, kind=f"network: {how} differs from the first eager call",
                                     maxdiff=float(np.abs(o - ref).max()) if o.shape == ref.shape else None))
            d = simlib.diff_snap(snap0, simlib.snapshot(net))
            if d:
                viol.append(dict(case, kind="repeated integrate calls changed the module", changed=d))
            # data_set of a synaptic parameter: the SAME param_state object passed to several calls
            import copy as _copy
            e2 = cl
            pkey = "IonotropicSynapse_gS" if tys[e2] is IonotropicSynapse else "TestSynapse_gC"
            with quiet():
                twin = _copy.deepcopy(net)
                twin.select(edges=[e2]).set(pkey, 7e-4)
                want = np.asarray(jx.integrate(twin, **kw))
                ps = net.select(edges=[e2]).data_set(pkey, 7e-4, None)
                ps_before = repr(jax.tree_util.tree_map(lambda a: np.asarray(a).tolist(), ps))
                runs = [np.asarray(jx.integrate(net, param_state=ps, **kw)) for _ in range(3)]
                runs.append(np.asarray(jax.jit(lambda: jx.integrate(net, param_state=ps, **kw))()))
                ps_after = repr(jax.tree_util.tree_map(lambda a: np.asarray(a).tolist(), ps))
            evals += 4
            for ri, o in enumerate(runs):
                if o.shape != want.shape or np.abs(o - want).max() > 1e-9 * max(1.0, float(np.abs(want).max())):
                    viol.append(dict(case, kind="integrate with the same param_state differs between calls / from the module with the value set()",
                                     call=ri, key=pkey, edge=e2, maxdiff=float(np.abs(o - want).max()) if o.shape == want.shape else None))
                    break
            if ps_before != ps_after:
                viol.append(dict(case, kind="integrate modified the param_state it was given", before=ps_before[:300], after=ps_after[:300]))
        except Exception as ex:
            import traceback as _tb
            viol.append({"kind": "network integrate raised", "edge_types": [t.__name__ for t in tys], "error": repr(ex)[:300], "trace": _tb.format_exc()[-600:]})
    evals += evc[0]
    import regress
    evals += regress.run("C06", viol)
    for v in viol:
        v.setdefault("finding_class", None)
    return {"evaluations": evals, "distinct_nontrivial": len(distinct),
            "rule": RULE, "samples": samples, "violations": viol[:20]}


RULE = ("random branched cells (Leak or HH, heterogeneous parameters, stimulus on 1-2 compartments, optional clamp of different width, trainables) x (solver, backend): "
        "eager vs repeated vs jit vs vmap(params) vs vmap(stimuli) vs every checkpoint_lengths factorisation (depth<=3, product in [n, n+slack]); "
        "deep snapshot of the module before/after; networks with interleaved synapse types, a clamp on the synaptic state of an edge whose global index differs from its index within the type, voltage clamp, stimulus: first call vs repeated vs jit vs third vs checkpoint layouts, clamp followed exactly, module unchanged; data_set of a synaptic parameter with the same param_state passed to repeated / jitted calls (vs the value set(), param_state unchanged); distinct by (cell, steps, layout)")


def _rest(ctx, rng, cell, params, kw, vs, case, ref, scale, snap0, nsteps, parents, counts, use_hh, viol, distinct, evc):
    import numpy as np
    import jax
    import jax.numpy as jnp
    import jaxley as jx
    import simlib
    from simlib import quiet
    evals = 0
    if True:
        # purity and determinism
        snap1 = simlib.snapshot(cell)
        d = simlib.diff_snap(snap0, snap1)
        if d:
            viol.append(dict(case, kind="integrate changed the module", changed=d))
        with quiet():
            again = np.asarray(jx.integrate(cell, params, **kw))
        evals += 1
        if not np.array_equal(ref, again):
            viol.append(dict(case, kind="repeated integrate is not bit-identical", maxdiff=float(np.abs(ref - again).max())))
        # jit
        with quiet():
            jitted = np.asarray(jax.jit(lambda p: jx.integrate(cell, p, **kw))(params))
        evals += 1
        if not np.allclose(ref, jitted, rtol=0, atol=1e-9 * scale):
            viol.append(dict(case, kind="jit differs from eager", maxdiff=float(np.abs(ref - jitted).max())))
        # vmap: jax.experimental.sparse's spsolve has no batching rule (a JAX limitation,
        # the backend refuses) -> vmap is exercised with the jaxley.* backends
        if vs == "jax.sparse":
            kw = dict(kw, voltage_solver=rng.choice(["jaxley.thomas", "jaxley.stone"]))
        # vmap over parameters
        fac = [1.0, 1.25, 0.75]
        batched = [{k: jnp.stack([v * f for f in fac]) for k, v in p.items()} for p in params]
        with quiet():
            vm = np.asarray(jax.vmap(lambda p: jx.integrate(cell, p, **kw))(batched))
            seq = [np.asarray(jx.integrate(cell, [{k: v * f for k, v in p.items()} for p in params], **kw)) for f in fac]
        evals += 1 + len(fac)
        for j in range(len(fac)):
            if not np.allclose(vm[j], seq[j], rtol=0, atol=1e-9 * scale):
                viol.append(dict(case, kind="vmap over parameters differs from sequential calls", batch_entry=j,
                                 maxdiff=float(np.abs(vm[j] - seq[j]).max())))
        # vmap over stimuli (data_stimulate)
        amps = jnp.asarray([0.0, 0.5, -0.25])
        base_cur = jnp.asarray([simlib.dy(rng, 0, 1, 16) for _ in range(nsteps)])

        def sim_amp(a):
            ds = cell.select(nodes=[0]).data_stimulate(a * base_cur, None)
            return jx.integrate(cell, params, data_stimuli=ds, **kw)
        with quiet():
            vm2 = np.asarray(jax.vmap(sim_amp)(amps))
            seq2 = [np.asarray(sim_amp(a)) for a in amps]
        evals += 4
        for j in range(3):
            if not np.allclose(vm2[j], seq2[j], rtol=0, atol=1e-9 * scale):
                viol.append(dict(case, kind="vmap over stimuli differs from sequential calls", batch_entry=j))
        if simlib.diff_snap(snap0, simlib.snapshot(cell)):
            viol.append(dict(case, kind="data_stimulate / integrate changed the module", changed=simlib.diff_snap(snap0, simlib.snapshot(cell))))
        kw = dict(kw, voltage_solver=vs)
        # every checkpointing layout covering the run
        facs = simlib.factorizations(nsteps, 3, slack=ctx.budget(3, 5))
        if len(facs) > ctx.budget(6, 40):
            facs = rng.sample(facs, ctx.budget(6, 40))
        for cl in facs:
            try:
                with quiet():
                    out = np.asarray(jx.integrate(cell, params, checkpoint_lengths=cl, **kw))
            except Exception as ex:
                viol.append(dict(case, kind="integrate raised for a checkpoint_lengths covering the run", checkpoint_lengths=cl, error=repr(ex)[:300]))
                continue
            evals += 1
            distinct.add((tuple(parents), tuple(counts), use_hh, nsteps, tuple(cl)))
            if out.shape != ref.shape or not np.allclose(ref, out, rtol=0, atol=1e-9 * scale):
                viol.append(dict(case, kind="checkpoint_lengths changed the recordings", checkpoint_lengths=cl,
                                 maxdiff=float(np.abs(ref - out).max()) if out.shape == ref.shape else None))
    evc[0] += evals


def replay(ctx, case):
    return {"violated": False, "note": "re-run the check with the same VERIF_SEED"}
