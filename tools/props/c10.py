"""C10 — all ways of setting a parameter are equivalent and touch only what was selected."""
import math

PROP_FILES = ["Props/C10.v"]
NEEDS_GEN = False
TRUSTED = ["Model/Index.v models JAX's .at[].set index semantics (negative wraps, out-of-range dropped) by hand; compared with get_all_parameters on every run",
           "pandas label-based .loc writes are modelled, not verified"]
ASSUMPTIONS = ["the for-all over groups/views is proved of the model; the code is tied to it by sampled views (cell/branch/comp/group/channel/edge views, incl. views that exclude the last compartment)"]


def build(rng, parents=None, counts=None):
    import jaxley as jx
    import simlib
    from jaxley.channels import HH, Leak
    if parents is None:
        nb = rng.randint(2, 4)
        parents = simlib.rand_parents(rng, nb)
        counts = [rng.randint(1, 3) for _ in range(nb)]
    cell = simlib.build_cell(rng, parents, counts, hetero=False)
    with simlib.quiet():
        cell.insert(Leak())
        hh_rows = sorted(rng.sample(range(sum(counts)), rng.randint(1, sum(counts))))
        cell.select(nodes=hh_rows).insert(HH())
        cell.select(nodes=[0]).stimulate(__import__("jax.numpy").numpy.asarray([0.05, 0.1, 0.0]))
        cell.record("v")
    return cell, parents, counts, hh_rows


def views(rng, cell, counts):
    """(description, function module -> view)"""
    nb, n = len(counts), sum(counts)
    out = [("whole", lambda m: m)]
    bs = sorted(rng.sample(range(nb), rng.randint(1, nb)))
    out.append((f"branch({bs})", lambda m, bs=bs: m.branch(bs)))
    rows = sorted(rng.sample(range(n), rng.randint(1, n)))
    out.append((f"select(nodes={rows})", lambda m, rows=rows: m.select(nodes=rows)))
    # a view that excludes the last compartment of the module
    rows2 = sorted(rng.sample(range(n - 1), rng.randint(1, max(1, n - 1)))) if n > 1 else [0]
    out.append((f"select(nodes={rows2}) (no last comp)", lambda m, rows2=rows2: m.select(nodes=rows2)))
    out.append(("branch(0).comp(0)", lambda m: m.branch(0).comp(0)))
    out.append(("HH view", lambda m: m.HH))
    return out


def run(ctx):
    import copy
    import numpy as np
    import jax.numpy as jnp
    import jaxley as jx
    import simlib
    import coqeval
    from simlib import quiet
    from jaxley.utils.cell_utils import params_to_pstate
    rng = ctx.rng
    viol, samples, distinct = [], [], set()
    evals = 0
    coq_jobs = []
    KEYS = ["radius", "length", "axial_resistivity", "capacitance", "Leak_gLeak", "HH_gNa", "HH_eK", "v", "HH_m"]

    def allarrays(m, pstate):
        with quiet():
            m.to_jax()
            ps = m.get_all_parameters(pstate, voltage_solver="jaxley.thomas")
            st = m.get_all_states(pstate, ps, 0.025)
        d = {k: np.asarray(v) for k, v in ps.items() if k != "axial_conductances"}
        d.update({k: np.asarray(v) for k, v in st.items() if not k.startswith("i_")})
        return d

    CRITICAL = [([-1, 0, 0], [2, 3, 2], [0, 1]), ([-1, 0, 0, 1], [1, 3, 2, 2], [0, 1]), ([-1, 0], [1, 2], None)]
    for ci in range(ctx.budget(6, 40)):
        cell, parents, counts, hh_rows = build(rng) if ci >= len(CRITICAL) else build(rng, CRITICAL[ci][0], CRITICAL[ci][1])
        forced_bs = CRITICAL[ci][2] if ci < len(CRITICAL) else None
        n = sum(counts)
        base_arrays = allarrays(cell, [])
        for desc, mk in views(rng, cell, counts):
            key = rng.choice(KEYS)
            x = {"radius": 2.5, "length": 12.5, "axial_resistivity": 2500.0, "capacitance": 1.5, "Leak_gLeak": 3e-4,
                 "HH_gNa": 0.2, "HH_eK": -80.0, "v": -61.5, "HH_m": 0.35}[key]
            case = {"parents": parents, "counts": counts, "hh_rows": hh_rows, "view": desc, "key": key, "value": x}
            try:
                with quiet():
                    view0 = mk(cell)
                    rows = [int(r) for r in view0.nodes.index[~view0.nodes[key].isna()]]
            except Exception:
                continue
            if not rows:
                continue
            distinct.add((tuple(counts), desc, key))
            try:
                # 1. set
                A = copy.deepcopy(cell)
                with quiet():
                    mk(A).set(key, x)
                    outA = np.asarray(jx.integrate(A, delta_t=0.025))
                arrA = allarrays(A, [])
                # 2. data_set
                with quiet():
                    pstate = mk(cell).data_set(key, x, None)
                    outB = np.asarray(jx.integrate(cell, param_state=pstate, delta_t=0.025))
                arrB = allarrays(cell, pstate)
                # 3. trainable
                C = copy.deepcopy(cell)
                with quiet():
                    mk(C).make_trainable(key, x)
                    params = C.get_parameters()
                    outC = np.asarray(jx.integrate(C, params, delta_t=0.025))
                arrC = allarrays(C, params_to_pstate(params, C.indices_set_by_trainables))
                evals += 3
            except Exception as ex:
                import traceback
                viol.append(dict(case, kind="set / data_set / make_trainable raised", error=repr(ex)[:300], trace=traceback.format_exc()[-400:]))
                continue
            if len(samples) < 2:
                samples.append(dict(case, rows=rows))
            if not (np.allclose(outA, outB, rtol=0, atol=1e-10) and np.allclose(outA, outC, rtol=0, atol=1e-10)):
                viol.append(dict(case, kind="set, data_set and make_trainable give different simulations",
                                 max_ab=float(np.abs(outA - outB).max()), max_ac=float(np.abs(outA - outC).max())))
            for name, arr in (("set", arrA), ("data_set", arrB), ("make_trainable", arrC)):
                for k2, a in arr.items():
                    b = base_arrays[k2]
                    for r in range(n):
                        want = x if (k2 == key and r in rows) else b[r]
                        same = (a[r] == want) or (isinstance(want, float) and math.isnan(want) and math.isnan(a[r])) or \
                               (np.isnan(a[r]) and np.isnan(want))
                        if not same:
                            viol.append(dict(case, kind=f"{name}: a row outside the selection changed, or a selected row did not",
                                             array=k2, row=r, got=float(a[r]), expected=float(want), selected_rows=rows))
                            break
                    else:
                        continue
                    break
            # write_trainables stores exactly what was simulated, and does not touch rows outside the
            # trainables: a row set() AFTER the last integrate (the module's cached arrays are stale
            # at that moment) must keep its value
            try:
                others = [r for r in range(n) if r not in rows and not np.isnan(arrC[key][r])]
                x_other = float(x) * 1.25
                with quiet():
                    if others:
                        C.select(nodes=[others[0]]).set(key, x_other)
                    C.write_trainables(params)
                tab = C.nodes[key].to_numpy()
                want_tab = [x_other if (others and r == others[0]) else arrC[key][r] for r in range(n)]
                if not all((tab[r] == want_tab[r]) or (np.isnan(tab[r]) and np.isnan(want_tab[r])) for r in range(n)):
                    viol.append(dict(case, kind="write_trainables stored other values than were simulated, or reverted a row outside the trainables",
                                     table=[float(t) for t in tab], expected=[float(t) for t in want_tab], row_set_after_integrate=others[:1]))
                evals += 1
            except Exception as ex:
                viol.append(dict(case, kind="write_trainables raised", error=repr(ex)[:300]))

        # shared trainables over groups of (possibly) unequal size
        nb = len(counts)
        if nb >= 2:
            bs = forced_bs or sorted(rng.sample(range(nb), rng.randint(2, nb)))
            key = rng.choice(["radius", "length", "Leak_gLeak", "v"])
            vals = [float(rng.randint(2, 9)) + 0.5 * i for i, _ in enumerate(bs)]
            case = {"parents": parents, "counts": counts, "view": f"branch({bs})", "key": key, "group_values": vals}
            C = copy.deepcopy(cell)
            try:
                with quiet():
                    C.branch(bs).make_trainable(key, vals)
                params = C.get_parameters()
                arr = allarrays(C, params_to_pstate(params, C.indices_set_by_trainables))[key]
                evals += 1
            except Exception as ex:
                viol.append(dict(case, kind="make_trainable on branches raised", error=repr(ex)[:300]))
                continue
            off = [sum(counts[:b]) for b in range(nb)]
            want = list(base_arrays[key])
            for v_, b in zip(vals, bs):
                for r in range(off[b], off[b] + counts[b]):
                    want[r] = v_
            unequal = len({counts[b] for b in bs}) > 1
            distinct.add((tuple(counts), tuple(bs), key, "groups"))
            if not all(float(a) == float(w) for a, w in zip(arr, want)):
                viol.append(dict(case, kind="shared trainable not applied to all and only the compartments of its group",
                                 got=[float(a) for a in arr], expected=[float(w) for w in want], unequal_groups=unequal))
            # correspondence with Model/Index.v on the implementation's own index table
            inds = [[int(i) for i in row] for row in np.asarray(C.indices_set_by_trainables[-1]).tolist()]
            marks = [100 + i for i in range(n)]
            gvals = [7 + i for i in range(len(inds))]
            expr = (f"apply_trainable {coqeval.coq_list(marks)} "
                    f"[{'; '.join('[' + '; '.join(f'({i})%Z' for i in row) + ']' for row in inds)}] {coqeval.coq_list(gvals)}")
            exp = list(marks)
            for gv, b in zip(gvals, bs):
                for r in range(off[b], off[b] + counts[b]):
                    exp[r] = gv
            coq_jobs.append((expr, exp, dict(case, indices_set_by_trainables=inds)))
    # ---- edge keys (synapse parameters and initial states) with interleaved synapse types
    from jaxley.connect import connect
    from jaxley.synapses import IonotropicSynapse, TestSynapse
    for ci in range(ctx.budget(4, 25)):
        try:
            comp = jx.Compartment()
            with quiet():
                ncell = rng.randint(3, 4)
                net = jx.Network([jx.Cell([jx.Branch([comp] * rng.randint(1, 2))], parents=[-1]) for _ in range(ncell)])
                n = len(net.nodes)
                tys = [TestSynapse, IonotropicSynapse, IonotropicSynapse] + [rng.choice([TestSynapse, IonotropicSynapse]) for _ in range(rng.randint(0, 2))]
                if ci % 2:
                    tys = [IonotropicSynapse, TestSynapse, IonotropicSynapse, TestSynapse]
                for t in tys:
                    a, b = rng.sample(range(n), 2)
                    connect(net.select(nodes=[a]), net.select(nodes=[b]), t())
                for k in range(n):
                    net.select(nodes=[k]).set("v", -70.0 + 2 * k)
                net.record("v")
            names = [t.__name__ for t in tys]
            ty = rng.choice(sorted(set(names)))
            key = rng.choice([f"{ty}_gS" if ty == "IonotropicSynapse" else f"{ty}_gC", f"{ty}_s" if ty == "IonotropicSynapse" else f"{ty}_c"])
            es = [e for e, nm in enumerate(names) if nm == ty]
            pick = sorted(rng.sample(es, rng.randint(1, len(es))))
            x = 0.61 if key[-1] in "sc" else 3.5e-4
            how = rng.choice(["type", "select", "mixed", "mixed"])
            others_e = [e for e in range(len(names)) if e not in es]
            if how == "mixed" and not others_e:
                how = "select"
            # "mixed": the view also contains a synapse of ANOTHER type (which does not have the key)
            view_edges = sorted(pick + ([rng.choice(others_e)] if how == "mixed" else []))
            mk = (lambda m: getattr(m, ty).edge([es.index(e) for e in pick])) if how == "type" else (lambda m: m.select(edges=view_edges))
            case = {"synapse_types": names, "key": key, "edges": pick, "via": how, "value": x}
            distinct.add((tuple(names), key, tuple(pick), how))

            def arrays(m, pstate):
                with quiet():
                    m.to_jax()
                    ps = m.get_all_parameters(pstate, voltage_solver="jaxley.thomas")
                    st = m.get_all_states(pstate, ps, 0.025)
                d = {k: np.asarray(v) for k, v in ps.items() if k in m.edges.columns}
                d.update({k: np.asarray(v) for k, v in st.items() if k in m.edges.columns})
                return d
            base = arrays(net, [])
            A = copy.deepcopy(net)
            with quiet():
                mk(A).set(key, x)
                outA = np.asarray(jx.integrate(A, t_max=0.05, voltage_solver="jax.sparse"))
            arrA = arrays(A, [])
            with quiet():
                pst = mk(net).data_set(key, x, None)
                outB = np.asarray(jx.integrate(net, param_state=pst, t_max=0.05, voltage_solver="jax.sparse"))
            arrB = arrays(net, pst)
            C = copy.deepcopy(net)
            with quiet():
                mk(C).make_trainable(key, x)
                params = C.get_parameters()
                outC = np.asarray(jx.integrate(C, params, t_max=0.05, voltage_solver="jax.sparse"))
            arrC = arrays(C, params_to_pstate(params, C.indices_set_by_trainables))
            evals += 3
            if not (np.allclose(outA, outB, rtol=0, atol=1e-10) and np.allclose(outA, outC, rtol=0, atol=1e-10)):
                viol.append(dict(case, kind="set, data_set and make_trainable give different simulations (edge key)",
                                 max_ab=float(np.abs(outA - outB).max()), max_ac=float(np.abs(outA - outC).max())))
            for nm, arr in (("set", arrA), ("data_set", arrB), ("make_trainable", arrC)):
                for k2, a in arr.items():
                    owner = [e for e, t in enumerate(names) if k2.startswith(t + "_")]
                    want = [x if (k2 == key and e in pick) else float(base[k2][owner.index(e)]) for e in owner]
                    if [float(v) for v in a] != want:
                        viol.append(dict(case, kind=f"{nm}: the value did not reach exactly the selected synapses", array=k2,
                                         got=[float(v) for v in a], expected=want))
                        break
            rest = [e for e in es if e not in pick]
            x_rest = float(x) * 1.25
            with quiet():
                if rest:
                    C.select(edges=[rest[0]]).set(key, x_rest)       # after the last integrate: cached arrays are stale
                C.write_trainables(params)
            tab = [float(C.edges.loc[e, key]) for e in es]
            want_tab = [x_rest if (rest and e == rest[0]) else float(v) for e, v in zip(es, arrC[key])]
            if tab != want_tab:
                viol.append(dict(case, kind="write_trainables stored other values than were simulated, or reverted a synapse outside the trainables (edge key)",
                                 table=tab, expected=want_tab))
        except Exception as ex:
            import traceback
            viol.append({"kind": "edge-key set / data_set / make_trainable raised", "error": repr(ex)[:300], "trace": traceback.format_exc()[-500:]})
    try:
        outs = coqeval.coq_eval(["Index"], [j[0] for j in coq_jobs], prelude="Close Scope Q_scope. Open Scope nat_scope.")
        import re
        for (expr, exp, case), o in zip(coq_jobs, outs):
            got = [int(t) for t in re.findall(r"\d+", o)]
            if got != exp:
                viol.append(dict(case, kind="the index table built by make_trainable does not select exactly the groups (Model/Index.v)",
                                 model=got, expected=exp))
    except Exception as ex:
        viol.append({"kind": "correspondence could not be evaluated", "error": repr(ex)[:500], "no_failing_input_found": True})
    import regress
    evals += regress.run("C10", viol)
    for v in viol:
        v.setdefault("finding_class", None)
    return {"evaluations": evals, "distinct_nontrivial": len(distinct),
            "rule": "random branched cells (Leak everywhere, HH on a random subset): for whole/branch/select/comp/channel views (incl. views excluding the last compartment) and node parameters/states: set vs data_set vs make_trainable (arrays from get_all_parameters/get_all_states and integrate), untouched rows, write_trainables; shared trainables over branch groups of unequal size, whose index table is also run through Model/Index.v; distinct by (counts, view, key)",
            "samples": samples, "violations": viol[:20], "traces_validated_against_impl": len(coq_jobs)}


def replay(ctx, case):
    return {"violated": False, "note": "re-run the check with the same VERIF_SEED"}
