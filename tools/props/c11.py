"""C11 — views select exactly the described compartments, in local or global scope."""
import itertools
import copy
import math

PROP_FILES = ["Props/C11.v"]
NEEDS_GEN = False
TRUSTED = ["Model/Views.v mirrors _reformat_index / _at_nodes / _update_local_indices / _set_inds_in_view by hand; compared exactly with the implementation on every run",
           "pandas semantics (isin, rank(method='dense'), groupby) are modelled, not verified"]
ASSUMPTIONS = ["the for-all over chains is proved of the model; the code is tied to it by enumerated selection chains x index forms x scopes on irregular fixtures"]


def fixtures(rng):
    """(name, module, drop) with heterogeneous branch / compartment counts."""
    import jaxley as jx
    import simlib
    from jaxley.connect import connect
    from jaxley.synapses import IonotropicSynapse, TestSynapse
    comp = jx.Compartment()
    out = []
    with simlib.quiet():
        c1 = jx.Cell([jx.Branch([comp] * n) for n in [2, 1, 3]], parents=[-1, 0, 0])
        c2 = jx.Cell([jx.Branch([comp] * n) for n in [1, 2]], parents=[-1, 0])
        c3 = jx.Cell([jx.Branch([comp] * n) for n in [3]], parents=[-1])
        net = jx.Network([c1, c2, c3])
        n = len(net.nodes)
        for k in range(5):
            a, b = rng.sample(range(n), 2)
            connect(net.select(nodes=[a]), net.select(nodes=[b]), rng.choice([IonotropicSynapse, TestSynapse])())
        out.append(("network", net, 0))
        out.append(("cell", jx.Cell([jx.Branch([comp] * n) for n in [1, 3, 2, 2]], parents=[-1, 0, 0, 1]), 1))
        out.append(("branch", jx.Branch([comp] * 4), 2))
    return out


def idx_forms(rng, hi):
    """(python index, Coq idx term)"""
    forms = []
    k = rng.randrange(hi + 1)
    forms.append((k, f"IInt {k}"))
    l = sorted(rng.sample(range(hi + 2), rng.randint(1, min(3, hi + 2))))
    forms.append((l, f"IList [{'; '.join(map(str, l))}]"))
    a = rng.randrange(hi + 1)
    b = rng.randint(a, hi + 2)
    forms.append((range(a, b), f"IRange {a} {b}"))
    forms.append((slice(a, b), f"ISlice (Some {a}) (Some {b})"))
    forms.append((slice(None, b), f"ISlice None (Some {b})"))
    forms.append(("all", "IAll"))
    return forms


def select_and_lazy_section(ctx, viol):
    """select() through random views (labels, unsorted labels, boolean masks over the view, sorted=) against
    labels computed here, and lazy [] indexing / iteration after scope switches against the method form"""
    import numpy as np
    import simlib
    rng = ctx.rng
    n_checks = 0
    for name, m, _drop in fixtures(rng):
        n = len(m.nodes)
        for _ in range(ctx.budget(6, 40)):
            rows = sorted(rng.sample(range(n), rng.randint(1, n)))
            with simlib.quiet():
                view = m.select(nodes=rows) if rng.random() < 0.8 else m
            labels = list(view.nodes.index)
            how = rng.choice(["mask", "mask_list", "labels", "unsorted", "unsorted_sorted", "slice", "slice"])
            try:
                with simlib.quiet():
                    if how in ("mask", "mask_list"):
                        mask = [rng.random() < 0.5 for _ in labels]
                        if not any(mask):
                            mask[rng.randrange(len(mask))] = True
                        want = [l for l, b in zip(labels, mask) if b]
                        got = list(view.select(np.asarray(mask) if how == "mask" else mask).nodes.index)
                    elif how == "slice":
                        # a slice denotes rows of the MODULE (labels), of which the view keeps its own
                        # (rows outside the view are refused with a KeyError, so the slice is drawn inside a run of
                        # consecutive rows of the view; on the whole module any slice is inside)
                        runs, cur = [], [labels[0]]
                        for l in labels[1:]:
                            if l == cur[-1] + 1:
                                cur.append(l)
                            else:
                                runs.append(cur)
                                cur = [l]
                        runs.append(cur)
                        run = rng.choice(runs)
                        a = rng.randrange(len(run))
                        b = rng.randint(a + 1, len(run))
                        st = rng.choice([None, None, 2])
                        lo = None if (run[a] == 0 and rng.random() < 0.5) else run[a]
                        hi = None if (run[b - 1] == n - 1 and rng.random() < 0.5) else run[b - 1] + 1
                        sl = slice(lo, hi, st)
                        want = list(range(n)[sl])
                        got = list(view.select(nodes=sl).nodes.index)
                    else:
                        pick = rng.sample(labels, rng.randint(1, len(labels)))
                        if how == "labels":
                            pick = sorted(pick)
                        want = sorted(pick) if how != "unsorted" else pick
                        got = list(view.select(nodes=pick, sorted=(how == "unsorted_sorted")).nodes.index)
                n_checks += 1
                if got != want:
                    viol.append({"kind": "select() through a view does not select the denoted compartments", "fixture": name, "rows_in_view": labels, "how": how,
                                 "got": got, "expected": want, "finding_class": None})
            except Exception as ex:
                viol.append({"kind": "select() through a view raised", "fixture": name, "rows_in_view": labels, "how": how, "error": repr(ex)[:200], "finding_class": None})
        # lazy indexing after scope switches
        if name == "network":
            for _ in range(ctx.budget(4, 30)):
                sc = rng.choice(["global", "local"])
                ci = rng.randrange(3)
                try:
                    with simlib.quiet():
                        base = m.scope(sc)
                        a = list(base[ci].nodes.index)
                        b = list(base.cell(ci).nodes.index)
                        cv = m.cell(ci).scope(sc)
                        nb = len(set(cv.nodes["global_branch_index"]))
                        bi = rng.randrange(nb) if sc == "local" else int(rng.choice(sorted(set(cv.nodes["global_branch_index"]))))
                        a2 = list(cv[bi].nodes.index)
                        b2 = list(cv.branch(bi).nodes.index)
                        it = [list(x.nodes.index) for x in cv]
                        it2 = [list(x.nodes.index) for x in cv.branches]
                    n_checks += 3
                    if a != b or a2 != b2 or it != it2:
                        viol.append({"kind": "lazy [] indexing / iteration after a scope switch disagrees with the method form", "scope": sc, "cell": ci, "branch": bi,
                                     "lazy": [a, a2, it], "method": [b, b2, it2], "finding_class": None})
                except Exception as ex:
                    viol.append({"kind": "lazy [] indexing / iteration after a scope switch raised", "scope": sc, "cell": ci, "error": repr(ex)[:200], "finding_class": None})
    return n_checks


def run(ctx):
    import numpy as np
    import jaxley as jx
    import simlib
    import coqeval
    from simlib import quiet
    rng = ctx.rng
    viol, samples, distinct = [], [], set()
    evals = 0
    jobs = []
    LEVELS = ["cell", "branch", "comp"]
    for name, mod, drop in fixtures(rng):
        nodes = mod.nodes
        n = len(nodes)
        table = "[" + "; ".join(f"({int(c)}, {int(b)})" for c, b in zip(nodes["global_cell_index"], nodes["global_branch_index"])) + "]"
        edges = [(int(a), int(b)) for a, b in zip(mod.edges.get("pre_global_comp_index", []), mod.edges.get("post_global_comp_index", []))] if len(mod.edges) else []
        etab = "[" + "; ".join(f"({a}, {b})" for a, b in edges) + "]"
        levels = LEVELS[drop:]
        nchains = ctx.budget(60, 600)
        for _ in range(nchains):
            depth = rng.randint(1, len(levels))
            chain_py, chain_coq = [], []
            view = mod
            ok = True
            err = None
            for d in range(depth):
                lv = levels[d]
                sc = rng.choice(["local", "global"])
                hi = {"cell": 2, "branch": 5, "comp": 4}[lv] if sc == "local" else {"cell": 2, "branch": 5, "comp": n - 1}[lv]
                py, cq = rng.choice(idx_forms(rng, hi))
                # boolean masks: a mask whose length matches one dimension of the current view
                if rng.random() < 0.2 and ok:
                    try:
                        shp = list(view.shape) + [len(view.edges)]
                        L = rng.choice(shp)
                        if rng.random() < 0.6:
                            # one entry per item of THIS level in view: the mask is positional
                            L = len(np.unique(view.nodes[f"global_{lv}_index"].to_numpy()))
                        if L > 0:
                            m = [rng.random() < 0.6 for _ in range(L)]
                            py, cq = np.asarray(m), "IMask [" + "; ".join("true" if x else "false" for x in m) + "]"
                    except Exception:
                        pass
                chain_py.append((sc, lv, py))
                chain_coq.append(f"({'Local' if sc == 'local' else 'Global'}, {lv.capitalize()}, {cq})")
                if ok:
                    try:
                        with quiet():
                            view = getattr(view.scope(sc), lv)(py)
                    except Exception as ex:
                        ok = False
                        err = repr(ex)[:120]
            evals += 1
            desc = {"fixture": name, "chain": [(s, l, (p.tolist() if hasattr(p, "tolist") else (str(p) if isinstance(p, (slice, range)) else p))) for s, l, p in chain_py]}
            distinct.add((name, tuple(chain_coq)))
            if ok:
                got_nodes = [int(x) for x in view._nodes_in_view]
                got_edges = sorted(int(x) for x in view._edges_in_view)
                loc = view.nodes[["local_cell_index", "local_branch_index", "local_comp_index"]].to_numpy().tolist()
            else:
                got_nodes = got_edges = loc = None
            if len(samples) < 3 and ok:
                samples.append(dict(desc, nodes_in_view=got_nodes))
            expr = (f"let t := {table} in match chain t (shape_of_e t {etab} {drop}) (seq 0 {n}) [{'; '.join(chain_coq)}] with "
                    f"| Some v => (1 :: v, (edges_in_view {etab} (seq 0 {len(edges)}) v, map (fun r => [local_index t v Cell r; local_index t v Branch r; local_index t v Comp r]) v)) "
                    f"| None => ([0], ([], [])) end")
            jobs.append((expr, got_nodes, got_edges, loc, desc, err))
        # lazy indexing and iteration agree with the method form
        try:
            with quiet():
                if name == "network":
                    for ci, cell in enumerate(mod):
                        a = [int(x) for x in cell._nodes_in_view]
                        b = [int(x) for x in mod.cell(ci)._nodes_in_view]
                        c = [int(x) for x in mod[ci]._nodes_in_view]
                        if not (a == b == c):
                            viol.append({"kind": "iteration / [] / method form disagree", "fixture": name, "cell": ci, "iter": a, "method": b, "getitem": c})
                        for bi, br in enumerate(cell):
                            a = [int(x) for x in br._nodes_in_view]
                            b = [int(x) for x in mod.cell(ci).branch(bi)._nodes_in_view]
                            c = [int(x) for x in mod[ci, bi]._nodes_in_view]
                            if not (a == b == c):
                                viol.append({"kind": "iteration / [] / method form disagree", "fixture": name, "cell": ci, "branch": bi, "iter": a, "method": b, "getitem": c})
                            evals += 1
                if name == "cell":
                    for bi, br in enumerate(mod):
                        for ki, cp in enumerate(br):
                            a = [int(x) for x in cp._nodes_in_view]
                            b = [int(x) for x in mod.branch(bi).comp(ki)._nodes_in_view]
                            c = [int(x) for x in mod[bi, ki]._nodes_in_view]
                            if not (a == b == c):
                                viol.append({"kind": "iteration / [] / method form disagree", "fixture": name, "branch": bi, "comp": ki, "iter": a, "method": b, "getitem": c})
                            evals += 1
                    # loc: the compartment whose interval contains the location, per branch
                    counts = [int(c) for c in mod.ncomp_per_branch]
                    off = [sum(counts[:b]) for b in range(len(counts))]
                    for at in [0.0, 0.1, 0.26, 0.5, 0.74, 0.99, 1.0, "all"]:
                        got = sorted(int(x) for x in mod.loc(at)._nodes_in_view)
                        if at == "all":
                            want = list(range(sum(counts)))
                        else:
                            want = sorted(off[b] + min(int(math.floor(at * counts[b] / (1 + 1e-10))), counts[b] - 1) for b in range(len(counts)))
                        evals += 1
                        if got != want:
                            viol.append({"kind": "loc() selects other compartments than the ones containing the location", "at": at, "counts": counts, "got": got, "expected": want})
        except Exception as ex:
            import traceback
            viol.append({"kind": "iteration / lazy indexing / loc raised", "fixture": name, "error": repr(ex)[:300], "trace": traceback.format_exc()[-400:]})

        # writes made through a view change exactly the rows in view
        try:
            import copy
            import jax.numpy as jnp
            from jaxley.channels import Leak
            for _ in range(ctx.budget(4, 30)):
                m = copy.deepcopy(mod)
                rows = sorted(rng.sample(range(n), rng.randint(1, n)))
                op = rng.choice(["set", "insert", "record", "stimulate", "clamp", "add_to_group", "move"])
                before = m.nodes.copy()
                with quiet():
                    v = m.select(nodes=rows)
                    if op == "set":
                        v.set("radius", 3.25)
                    elif op == "insert":
                        v.insert(Leak())
                    elif op == "record":
                        v.record("v")
                    elif op == "stimulate":
                        v.stimulate(jnp.asarray([0.1, 0.2]))
                    elif op == "clamp":
                        v.clamp("v", jnp.asarray([-60.0, -60.0]))
                    elif op == "add_to_group":
                        v.add_to_group("g")
                    elif op == "move":
                        # `.move()` moves whole branches; on a view holding only part of a branch it refuses (F54),
                        # which changes nothing and is not a violation; a refusal on whole branches would be
                        gb = before["global_branch_index"].to_numpy()
                        touched = {int(gb[r]) for r in rows}
                        whole = all(int(gb[r]) not in touched or r in rows for r in range(n))
                        try:
                            v.move(10.0, 0.0, 0.0)
                        except ValueError:
                            if whole:
                                raise
                evals += 1
                after = m.nodes
                changed = set()
                for col in after.columns:
                    if col in before.columns:
                        a, b = after[col].to_numpy(), before[col].to_numpy()
                        for r in range(n):
                            same = a[r] == b[r] or (a[r] != a[r] and b[r] != b[r])
                            if not same:
                                changed.add(r)
                    else:
                        a = after[col].to_numpy()
                        for r in range(n):
                            if a[r] is True or (isinstance(a[r], (float, np.floating)) and not math.isnan(a[r])) or (isinstance(a[r], (bool, np.bool_)) and a[r]):
                                changed.add(r)
                desc = {"fixture": name, "op": op, "rows_in_view": rows}
                if op in ("set", "insert") and changed != set(rows):
                    viol.append(dict(desc, kind="a write through a view changed other rows of .nodes (or not all of its own)", changed_rows=sorted(changed)))
                if op not in ("set", "insert") and changed:
                    viol.append(dict(desc, kind="a view operation that should not touch .nodes changed rows", changed_rows=sorted(changed)))
                if op == "record" and sorted(int(x) for x in m.recordings.rec_index) != rows:
                    viol.append(dict(desc, kind="record through a view recorded other rows", got=sorted(int(x) for x in m.recordings.rec_index)))
                if op in ("stimulate", "clamp"):
                    key = "i" if op == "stimulate" else "v"
                    if sorted(int(x) for x in m.external_inds[key]) != rows:
                        viol.append(dict(desc, kind="stimulate/clamp through a view targets other rows", got=sorted(int(x) for x in m.external_inds[key])))
                if op == "add_to_group" and sorted(int(x) for x in m.groups["g"]) != rows:
                    viol.append(dict(desc, kind="add_to_group through a view added other rows", got=sorted(int(x) for x in m.groups["g"])))
        except Exception as ex:
            import traceback
            viol.append({"kind": "a write through a view raised", "fixture": name, "error": repr(ex)[:300], "trace": traceback.format_exc()[-400:]})

    # ---- add_to_group through views that were created BEFORE the group existed
    try:
        for name, mod, drop in fixtures(rng):
            n = len(mod.nodes)
            if n < 3:
                continue
            for rep in range(ctx.budget(2, 8)):
                m = copy.deepcopy(mod)
                ra = sorted(rng.sample(range(n), rng.randint(1, n - 1)))
                rb = sorted(rng.sample(range(n), rng.randint(1, n - 1)))
                with quiet():
                    va, vb = m.select(nodes=ra), m.select(nodes=rb)       # both views exist before the group does
                    va.add_to_group("late")
                    vb.add_to_group("late")
                    got = sorted(int(x) for x in m.groups["late"])
                    sel = sorted(int(x) for x in m.late._nodes_in_view)
                evals += 1
                if got != sorted(set(ra) | set(rb)) or sel != got:
                    viol.append({"kind": "add_to_group through two views created before the group existed does not give the union of their rows",
                                 "fixture": name, "rows_a": ra, "rows_b": rb, "group": got, "selected_by_name": sel})
    except Exception as ex:
        import traceback
        viol.append({"kind": "add_to_group checks raised", "error": repr(ex)[:300], "trace": traceback.format_exc()[-400:]})

    # ---- name selectors (channels, synapse types, groups) and selections of synapses through views
    try:
        from jaxley.channels import HH, Leak
        from jaxley.connect import connect
        from jaxley.synapses import IonotropicSynapse, TestSynapse
        for rep in range(ctx.budget(3, 15)):
            comp = jx.Compartment()
            with quiet():
                cells = [jx.Cell([jx.Branch([comp] * k) for k in cnt], parents=par) for cnt, par in (([2, 1, 3], [-1, 0, 0]), ([1, 2], [-1, 0]), ([3], [-1]))]
                net = jx.Network(cells)
                n = len(net.nodes)
                hh_rows = sorted(rng.sample(range(n), rng.randint(1, n - 1)))
                net.select(nodes=hh_rows).insert(HH())
                grp_rows = sorted(rng.sample(range(n), rng.randint(1, n - 1)))
                net.select(nodes=grp_rows).add_to_group("grp")
                tys = [rng.choice([IonotropicSynapse, TestSynapse]) for _ in range(rng.randint(n + 1, n + 4))]     # more synapses than compartments
                ends = []
                for t in tys:
                    a, b = rng.sample(range(n), 2)
                    connect(net.select(nodes=[a]), net.select(nodes=[b]), t())
                    ends.append((a, b))
            ne = len(tys)
            for trial in range(6):
                vrows = sorted(rng.sample(range(n), rng.randint(1, n)))
                with quiet():
                    view = net.select(nodes=vrows)
                ev = [e for e in range(ne) if ends[e][0] in vrows and ends[e][1] in vrows]
                evals += 1
                distinct.add(("names", tuple(vrows), rep))
                for nm, want in (("HH", [r for r in vrows if r in hh_rows]), ("grp", [r for r in vrows if r in grp_rows])):
                    try:
                        with quiet():
                            got = [int(x) for x in getattr(view, nm)._nodes_in_view]
                    except ValueError:
                        got = []
                    if got != want:
                        viol.append({"kind": f"the name selector .{nm} of a view does not select exactly the view's compartments that have it", "rows_in_view": vrows,
                                     "rows_with_it": hh_rows if nm == "HH" else grp_rows, "got": got, "expected": want})
                for ty in (IonotropicSynapse, TestSynapse):
                    want = [e for e in ev if tys[e] is ty]
                    if ty.__name__ not in net.synapse_names:
                        continue
                    try:
                        with quiet():
                            got = sorted(int(x) for x in getattr(view, ty.__name__)._edges_in_view)
                    except ValueError:
                        got = []
                    if got != want:
                        viol.append({"kind": "the synapse-type selector of a view does not select exactly the view's synapses of that type", "rows_in_view": vrows,
                                     "type": ty.__name__, "got": got, "expected": want})
            # synapses: slices are not limited by the number of compartments; edge() in both scopes
            a_, b_ = sorted(rng.sample(range(ne + 1), 2))
            for how, f, want in (("select(edges=slice)", lambda: net.select(edges=slice(a_, b_)), list(range(a_, b_))),
                                 ("scope('global').edge(slice)", lambda: net.scope("global").edge(slice(a_, b_)), list(range(a_, b_))),
                                 ("edge(int) in local scope", lambda: net.edge(a_ if a_ < ne else 0), [a_ if a_ < ne else 0]),
                                 ("edge('all')", lambda: net.edge("all"), list(range(ne)))):
                if not want:
                    continue
                try:
                    with quiet():
                        got = sorted(int(x) for x in f()._edges_in_view)
                except Exception as ex:
                    got = "raised " + repr(ex)[:80]
                evals += 1
                if got != want:
                    viol.append({"kind": "a selection of synapses does not select exactly the synapses it denotes", "how": how, "n_synapses": ne, "n_compartments": n,
                                 "slice": [a_, b_], "got": got, "expected": want})
    except Exception as ex:
        import traceback
        viol.append({"kind": "name-selector checks raised", "error": repr(ex)[:300], "trace": traceback.format_exc()[-500:]})

    # ---- the model on the same chains
    import re
    nmodel = 0
    try:
        outs = coqeval.coq_eval(["Views"], [j[0] for j in jobs], prelude="Close Scope Q_scope. Open Scope nat_scope.")
        for (expr, got_nodes, got_edges, loc, desc, err), o in zip(jobs, outs):
            nmodel += 1
            m = re.match(r"\(\[(.*?)\],\s*\(\[(.*?)\],\s*\[(.*)\]\)\)$", o.strip())
            mv = [int(x) for x in re.findall(r"\d+", m.group(1))] if m else None
            me = sorted(int(x) for x in re.findall(r"\d+", m.group(2))) if m else None
            ml = [[int(x) for x in re.findall(r"\d+", g)] for g in re.findall(r"\[([^\[\]]*)\]", m.group(3))] if m else None
            rejected = (mv == [0])
            mv = mv[1:] if mv else mv
            if rejected:
                if got_nodes is not None:
                    viol.append(dict(desc, kind="the implementation accepts a selection that the model rejects", nodes_in_view=got_nodes))
                continue
            if got_nodes is None:
                viol.append(dict(desc, kind="the implementation rejects a selection that denotes a non-empty view", error=err, model_view=mv))
                continue
            if mv != got_nodes:
                viol.append(dict(desc, kind="view does not contain exactly the compartments the chain denotes", got=got_nodes, model=mv))
            elif me != got_edges:
                viol.append(dict(desc, kind="synapses in view are not those with both ends in view", got=got_edges, model=me))
            elif ml != loc:
                viol.append(dict(desc, kind="local indices are not the dense ranks within each parent", got=loc, model=ml))
    except Exception as ex:
        viol.append({"kind": "correspondence could not be evaluated", "error": repr(ex)[:800], "no_failing_input_found": True})
    try:
        import synsel
        evals += synsel.synapse_selection_section(ctx, viol)
    except Exception as ex:
        import traceback
        viol.append({"kind": "synapse selection section raised", "error": repr(ex)[:300], "trace": traceback.format_exc()[-500:]})
    try:
        evals += select_and_lazy_section(ctx, viol)
    except Exception as ex:
        import traceback
        viol.append({"kind": "select / lazy section raised", "error": repr(ex)[:300], "trace": traceback.format_exc()[-500:]})
    import regress
    evals += regress.run("C11", viol)
    for v in viol:
        v.setdefault("finding_class", None)
    return {"evaluations": evals, "distinct_nontrivial": len(distinct),
            "rule": "irregular fixtures (network of 3 different cells with 5 random synapses, 4-branch cell, branch): random selection chains up to the depth of the hierarchy over index forms {int, list, range, slice, boolean mask, 'all'} x {local, global} scope, compared exactly (rows, edges, local index columns, acceptance) with Model/Views.v; iteration and [] vs method form; loc(); confinement of set/insert/record/stimulate/clamp/add_to_group/move through random views; channel / group / synapse-type name selectors of random views (incl. views that do not contain the name), slices and local-scope selection of synapses with more synapses than compartments; distinct by (fixture, chain)",
            "samples": samples, "violations": viol[:20], "traces_validated_against_impl": nmodel}


def replay(ctx, case):
    return {"violated": False, "note": "re-run the check with the same VERIF_SEED"}
