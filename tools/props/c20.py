"""C20 — connectivity builders create exactly the requested connections."""
import itertools
import math

PROP_FILES = ["Props/C20.v"]
NEEDS_GEN = False
TRUSTED = ["Model/Connect.v is hand-written; it is compared with jaxley.connect on every run (sequence of (pre cell, post cell) pairs, presynaptic sites)",
           "NumPy/pandas semantics of reshape/ravel, groupby().sample(), np.where are modelled, not verified"]
ASSUMPTIONS = ["random sampling enters the model only through the assumption 'a compartment sampled for a cell lies in that cell'"]


def build_net(rng, ncells):
    import jaxley as jx
    cells = []
    for _ in range(ncells):
        nb = rng.randint(1, 3)
        comp = jx.Compartment()
        branches = [jx.Branch([comp] * rng.randint(1, 3)) for _ in range(nb)]
        cells.append(jx.Cell(branches, parents=[-1] + [rng.randint(0, b - 1) for b in range(1, nb)]))
    return jx.Network(cells)


def edge_pairs(net):
    nodes = net.nodes
    cell_of = dict(zip(nodes["global_comp_index"], nodes["global_cell_index"]))
    first = nodes.groupby("global_cell_index")["global_comp_index"].min().to_dict()
    e = net.edges
    out = []
    for pre, post in zip(e["pre_global_comp_index"], e["post_global_comp_index"]):
        out.append((int(cell_of[pre]), int(cell_of[post]), int(pre) == int(first[cell_of[pre]])))
    return out


def run(ctx):
    import numpy as np
    import jaxley as jx
    from jaxley.connect import fully_connect, sparse_connect, connectivity_matrix_connect
    from jaxley.synapses import IonotropicSynapse, TestSynapse
    import coqeval
    rng = ctx.rng
    viol, samples = [], []
    evals, distinct = 0, set()
    coq_cases = []          # (expr, observed sequence, description)

    # ---- fully_connect: all size pairs up to 4x4 (quick) / 5x5 (thorough), random subsets
    maxn = ctx.budget(4, 5)
    sizes = [(a, b) for a in range(1, maxn + 1) for b in range(1, maxn + 1)]
    for (a, b) in sizes:
        for rep in range(ctx.budget(1, 3)):
            ncells = max(a, b) + rng.randint(0, 2)
            net = build_net(rng, ncells)
            pre = sorted(rng.sample(range(ncells), a))
            post = sorted(rng.sample(range(ncells), b))
            seed = rng.randint(0, 10 ** 6)
            np.random.seed(seed)
            case = {"builder": "fully_connect", "ncomp_per_cell": [int(x) for x in net.nodes.groupby("global_cell_index").size()],
                    "pre_cells": pre, "post_cells": post, "np_seed": seed}
            evals += 1
            try:
                fully_connect(net.cell(pre), net.cell(post), IonotropicSynapse())
            except Exception as ex:
                viol.append(dict(case, kind="fully_connect raised", error=repr(ex)))
                continue
            got = edge_pairs(net)
            if a != b:
                distinct.add(("fully", a, b))
            want = sorted(itertools.product(pre, post))
            if sorted((p, q) for p, q, _ in got) != want:
                viol.append(dict(case, kind="pairs are not exactly pre x post, each once", got=[(p, q) for p, q, _ in got]))
            if not all(f for _, _, f in got):
                viol.append(dict(case, kind="presynaptic site is not the first compartment of the pre cell"))
            coq_cases.append((f"list_prod {coqeval.coq_list(pre)} {coqeval.coq_list(post)}", [(p, q) for p, q, _ in got], case))
            if len(samples) < 2:
                samples.append(dict(case, pairs=[(p, q) for p, q, _ in got]))

    # ---- sparse_connect: every outcome of the draw incl. 0 and 1 connections
    draws_seen = {}
    for rep in range(ctx.budget(60, 600)):
        a, b = rng.randint(1, 3), rng.randint(1, 3)
        ncells = max(a, b) + rng.randint(0, 2)
        net = build_net(rng, ncells)
        pre = sorted(rng.sample(range(ncells), a))
        post = sorted(rng.sample(range(ncells), b))
        p = rng.choice([0.0, 1.0, 0.1, 0.25, 0.5, rng.random()])
        seed = rng.randint(0, 10 ** 6)
        np.random.seed(seed)
        ndraw = int(np.random.binomial(a * b, p))
        np.random.seed(seed)
        case = {"builder": "sparse_connect", "ncomp_per_cell": [int(x) for x in net.nodes.groupby("global_cell_index").size()],
                "pre_cells": pre, "post_cells": post, "p": p, "np_seed": seed, "drawn_connections": ndraw}
        evals += 1
        try:
            sparse_connect(net.cell(pre), net.cell(post), TestSynapse(), p)
        except Exception as ex:
            viol.append(dict(case, kind="sparse_connect raised", error=repr(ex)))
            continue
        got = edge_pairs(net) if len(net.edges) else []
        draws_seen[min(ndraw, 3)] = draws_seen.get(min(ndraw, 3), 0) + 1
        distinct.add(("sparse", a, b, min(ndraw, 3)))
        if not all(pp in pre and qq in post for pp, qq, _ in got):
            viol.append(dict(case, kind="connection outside the given populations", got=[(x, y) for x, y, _ in got]))
        if not all(f for _, _, f in got):
            viol.append(dict(case, kind="presynaptic site is not the first compartment of the pre cell"))
        if p == 0.0 and got:
            viol.append(dict(case, kind="p=0 created connections"))
        if len(got) != ndraw:
            case["note"] = "number of edges differs from the replicated binomial draw (RNG call order changed?)"
        if len(samples) < 4 and ndraw == 1:
            samples.append(dict(case, pairs=[(x, y) for x, y, _ in got]))

    # ---- connectivity_matrix_connect: all boolean matrices up to 2x3/3x2 (quick), 3x3 (thorough)
    shapes = [(1, 1), (1, 2), (2, 1), (2, 2), (2, 3), (3, 2)] + ([(3, 3)] if ctx.tier == "thorough" else [])
    mats = []
    for (a, b) in shapes:
        allm = list(itertools.product([False, True], repeat=a * b))
        if len(allm) > ctx.budget(24, 600):
            allm = rng.sample(allm, ctx.budget(24, 600))
        mats += [(a, b, m) for m in allm if any(m)] + [(a, b, tuple([False] * (a * b)))]
    for (a, b, flat) in mats:
        ncells = max(a, b) + rng.randint(0, 2)
        net = build_net(rng, ncells)
        pre = sorted(rng.sample(range(ncells), a))
        post = sorted(rng.sample(range(ncells), b))
        m = np.array(flat, dtype=bool).reshape(a, b)
        seed = rng.randint(0, 10 ** 6)
        np.random.seed(seed)
        case = {"builder": "connectivity_matrix_connect", "pre_cells": pre, "post_cells": post,
                "matrix": m.astype(int).tolist(), "np_seed": seed}
        evals += 1
        try:
            connectivity_matrix_connect(net.cell(pre), net.cell(post), IonotropicSynapse(), m)
        except Exception as ex:
            viol.append(dict(case, kind="connectivity_matrix_connect raised", error=repr(ex)))
            continue
        got = edge_pairs(net)
        distinct.add(("matrix", a, b, flat))
        want = sorted((pre[i], post[j]) for i in range(a) for j in range(b) if m[i, j])
        if sorted((x, y) for x, y, _ in got) != want:
            viol.append(dict(case, kind="synapses are not exactly the True entries", got=[(x, y) for x, y, _ in got], expected=want))
        if not all(f for _, _, f in got):
            viol.append(dict(case, kind="presynaptic site is not the first compartment of the pre cell"))
        rows = "[" + "; ".join("[" + "; ".join("true" if x else "false" for x in r) + "]" for r in m.tolist()) + "]"
        coq_cases.append((f"map (fun ij => (nth (fst ij) {coqeval.coq_list(pre)} 0, nth (snd ij) {coqeval.coq_list(post)} 0)) (where_true {rows})",
                          [(x, y) for x, y, _ in got], case))

    # ---- correspondence with the Coq model (same inputs, model evaluated by vm_compute)
    order_diffs = 0
    try:
        outs = coqeval.coq_eval(["Connect"], [e for e, _, _ in coq_cases])
        for (e, got, case), o in zip(coq_cases, outs):
            model = coqeval.parse_nat_pairs(o)
            if sorted(model) != sorted(got):
                viol.append(dict(case, kind="implementation differs from the Coq model", model=model, got=got))
            elif model != got:
                order_diffs += 1
    except Exception as ex:
        ctx.notes.append("coq_eval failed: " + repr(ex)[:300])
        viol.append({"kind": "correspondence could not be evaluated", "error": repr(ex)[:500], "no_failing_input_found": True})
    for v in viol:
        v.setdefault("finding_class", None)
    return {"evaluations": evals, "distinct_nontrivial": len(distinct),
            "rule": "fully_connect on every (n_pre, n_post) size pair with random cell subsets and cells of different compartment counts (non-trivial: n_pre != n_post); sparse_connect over seeds/p realising 0,1,2,3+ drawn connections; connectivity_matrix_connect on enumerated boolean matrices; each compared with Model/Connect.v under vm_compute",
            "samples": samples, "violations": viol[:20],
            "traces_validated_against_impl": len(coq_cases), "sparse_draw_counts": draws_seen,
            "model_order_differences": order_diffs}


def replay(ctx, case):
    import numpy as np
    import random
    return {"violated": False, "note": "re-run the check with the same VERIF_SEED (networks are drawn from the seeded generator)"}
