"""C17 — parameter transforms are bounded, monotone bijections."""
import math

PROP_FILES = ["Props/C17.v"]
NEEDS_GEN = True
TRUSTED = ["tools/jaxpr2coq.py + tools/gen_layer_g.py (translator, validated each run)"]
ASSUMPTIONS = ["theorems are over the reals; in float64 the round trip is checked wherever the inverse is representable, with a tolerance derived from the conditioning of the inverse at that point",
               "ParamTransform/tree_map is modelled as map2 over flattened leaves (jax.tree_util semantics trusted) and tied by the direct predicate on real pytrees, eager and under jit"]

EPS = 2.0 ** -52


def sample_x(rng):
    r = rng.random()
    if r < 0.25:
        return rng.uniform(-5, 5)
    if r < 0.5:
        return rng.uniform(-40, 40)
    if r < 0.7:
        return rng.choice([-1, 1]) * 10 ** rng.uniform(0, 6)
    if r < 0.8:
        return rng.choice([0.0, 20.0, -20.0, 19.999, 20.001, 50.0, -30.0, 700.0, -700.0, 36.0, -36.0])
    return rng.uniform(-800, 800)


def run(ctx):
    import numpy as np
    import jax
    import jax.numpy as jnp
    import jaxley.optimize.transforms as T
    rng = ctx.rng
    n = ctx.budget(400, 6000) * (3 if not ctx.proof_ok else 1)
    viol, samples, distinct = [], [], set()
    evals = 0

    def f(t, x):
        return float(t.forward(x))

    def g(t, y):
        return float(t.inverse(y))

    for i in range(n):
        kind = rng.choice(["sigmoid", "softplus", "negsoftplus", "affine", "chain", "masked", "custom"])
        x = sample_x(rng)
        x2 = x + abs(x) * rng.choice([1e-9, 1e-3, 0.5]) + rng.choice([1e-9, 1e-3, 1.0])
        evals += 1
        distinct.add((kind, x))
        case = {"transform": kind, "x": x}
        try:
            if kind == "sigmoid":
                lo = rng.uniform(-10, 10)
                up = lo + 10 ** rng.uniform(-2, 2)
                t = T.SigmoidTransform(lo, up)
                case.update(lower=lo, upper=up)
                y, y2 = f(t, x), f(t, x2)
                if not (lo <= y <= up and math.isfinite(y)):
                    viol.append(dict(case, kind="forward outside declared bounds", y=y))
                if not y <= y2:
                    viol.append(dict(case, kind="forward not monotone", x2=x2, y=y, y2=y2))
                tt = 1.0 / (1.0 + math.exp(-x)) if x > -700 else 0.0
                one_minus = 1.0 / (1.0 + math.exp(x)) if x < 700 else 0.0
                if lo < y < up and tt > 0 and one_minus > 0:
                    tol = 8 * EPS * max(abs(y), abs(lo), abs(up), up - lo) / ((up - lo) * tt * one_minus) + 1e-9 * (1 + abs(x))
                    if tol < 0.25 * (1 + abs(x)):
                        xb = g(t, y)
                        if not abs(xb - x) <= tol:
                            viol.append(dict(case, kind="inverse(forward(x)) != x", back=xb, tol=tol))
                yy = lo + (up - lo) * rng.choice([rng.random(), 10 ** rng.uniform(-6, -1), 1 - 10 ** rng.uniform(-6, -1)])
                if lo < yy < up:
                    yb = f(t, g(t, yy))
                    if not abs(yb - yy) <= 1e-9 * (abs(yy) + (up - lo) + abs(lo)):
                        viol.append(dict(case, kind="forward(inverse(y)) != y", y=yy, back=yb))
            elif kind in ("softplus", "negsoftplus"):
                b = rng.uniform(-10, 10)
                neg = kind == "negsoftplus"
                t = T.NegSoftplusTransform(b) if neg else T.SoftplusTransform(b)
                case.update(bound=b)
                y, y2 = f(t, x), f(t, x2)
                inside = (y <= b) if neg else (y >= b)
                if not (inside and math.isfinite(y)):
                    viol.append(dict(case, kind="forward outside declared bounds", y=y))
                if not y <= y2:
                    viol.append(dict(case, kind="forward not monotone", x2=x2, y=y, y2=y2))
                xe = -x if neg else x
                z = math.log1p(math.exp(xe)) if xe < 30 else xe
                if z > 0 and y != b:
                    tol = 8 * EPS * max(abs(y), abs(b), z) / (-math.expm1(-z)) + 1e-9 * (1 + abs(x))
                    if tol < 0.25 * (1 + abs(x)):
                        xb = g(t, y)
                        if not abs(xb - x) <= tol:
                            viol.append(dict(case, kind="inverse(forward(x)) != x", back=xb, tol=tol, y=y))
                zz = rng.choice([10 ** rng.uniform(-6, 3), rng.uniform(0, 60)])
                yy = b - zz if neg else b + zz
                if yy != b:
                    yb = f(t, g(t, yy))
                    if not abs(yb - yy) <= 1e-9 * (abs(yy) + abs(b) + 1e-3) + 8 * EPS * abs(b):
                        viol.append(dict(case, kind="forward(inverse(y)) != y", y=yy, back=yb))
            elif kind == "affine":
                a = rng.choice([-1, 1]) * 10 ** rng.uniform(-3, 3)
                b = rng.uniform(-100, 100)
                t = T.AffineTransform(a, b)
                case.update(scale=a, shift=b)
                y, y2 = f(t, x), f(t, x2)
                if (a > 0 and not y <= y2) or (a < 0 and not y2 <= y):
                    viol.append(dict(case, kind="forward not monotone", x2=x2, y=y, y2=y2))
                xb = g(t, y)
                if not abs(xb - x) <= 1e-9 * (1 + abs(x)) + 8 * EPS * abs(b / a):
                    viol.append(dict(case, kind="inverse(forward(x)) != x", back=xb))
            elif kind == "chain":
                lo = rng.uniform(-3, 0)
                up = lo + rng.uniform(0.5, 4)
                lo2 = rng.uniform(-2, 2)
                a = 10 ** rng.uniform(-3, 0)
                t = T.ChainTransform([T.AffineTransform(a, 0.0), T.SigmoidTransform(lo, up), T.SoftplusTransform(lo2)])
                case.update(lower=lo, upper=up, lower2=lo2, scale=a)
                xs = max(-20.0, min(20.0, x))
                y, y2 = f(t, xs), f(t, xs + 1e-3)
                lo_img = lo2 + math.log1p(math.exp(lo))
                up_img = lo2 + math.log1p(math.exp(up))
                if not (lo_img - 1e-12 <= y <= up_img + 1e-12):
                    viol.append(dict(case, kind="chain forward outside the image of the bounds", y=y))
                if not y <= y2:
                    viol.append(dict(case, kind="forward not monotone", y=y, y2=y2))
                xb = g(t, y)
                if not abs(xb - xs) <= 1e-6 * (1 + abs(xs)) / a * 1e-3 + 1e-7 * (1 + abs(xs)) * math.exp(abs(a * xs)):
                    viol.append(dict(case, kind="inverse(forward(x)) != x", x_used=xs, back=xb))
            elif kind == "masked":
                lo, up = -2.0, 3.0
                mask = [rng.random() < 0.5 for _ in range(4)]
                xs = [max(-30.0, min(30.0, sample_x(rng))) for _ in range(4)]
                t = T.MaskedTransform(jnp.array(mask), T.SigmoidTransform(lo, up))
                inner = T.SigmoidTransform(lo, up)
                ys = np.asarray(t.forward(jnp.array(xs)))
                want = [float(inner.forward(a)) if m else a for a, m in zip(xs, mask)]
                case.update(mask=mask, xs=xs)
                if not all(a == b for a, b in zip(ys.tolist(), want)):
                    viol.append(dict(case, kind="masked transform did not apply exactly where the mask is set", got=ys.tolist(), expected=want))
                back = np.asarray(t.inverse(jnp.array(ys))).tolist()
                for a, bb, m in zip(xs, back, mask):
                    if not m and a != bb:
                        viol.append(dict(case, kind="masked inverse changed an unmasked entry", back=back))
            else:
                t = T.CustomTransform(lambda q: 2.0 * q + 1.0, lambda q: (q - 1.0) / 2.0)
                y = f(t, x)
                if y != 2.0 * x + 1.0 or abs(g(t, y) - x) > 1e-9 * (1 + abs(x)):
                    viol.append(dict(case, kind="custom transform does not call the given functions", y=y))
        except Exception as ex:
            viol.append(dict(case, kind="transform raised", error=repr(ex)))
        if len(samples) < 3:
            samples.append(case)

    # ParamTransform: each transform to exactly its own entry, identically under jit
    m = ctx.budget(12, 100)
    for i in range(m):
        evals += 1
        keys = [f"p{j}" for j in range(rng.randint(1, 5))]
        if i % 2 == 1:
            # the layout of Module.get_parameters(): the SAME name in several entries (one per
            # make_trainable call), each with its own transform
            keys = [rng.choice(["radius", "length"]) for _ in range(rng.randint(2, 5))]
            keys[-1] = keys[0]
        tfs, params, kinds = [], [], []
        for k in keys:
            kind = rng.choice(["sigmoid", "softplus", "negsoftplus", "affine"])
            lo = rng.uniform(-3, 3)
            t = {"sigmoid": lambda: T.SigmoidTransform(lo, lo + 2.5), "softplus": lambda: T.SoftplusTransform(lo),
                 "negsoftplus": lambda: T.NegSoftplusTransform(lo), "affine": lambda: T.AffineTransform(2.0, lo)}[kind]()
            arr = [rng.uniform(-4, 4) for _ in range(rng.randint(1, 4))]
            tfs.append({k: t}); params.append({k: jnp.array(arr)}); kinds.append((kind, lo))
        pt = T.ParamTransform(tfs)
        out = pt.forward(params)
        outj = jax.jit(pt.forward)(params)
        case = {"transform": "ParamTransform", "kinds": kinds, "params": [list(map(float, list(p.values())[0])) for p in params]}
        distinct.add(("ParamTransform", tuple(kinds)))
        for j, k in enumerate(keys):
            want = np.asarray(tfs[j][k].forward(params[j][k]))
            got = np.asarray(out[j][k])
            gotj = np.asarray(outj[j][k])
            if list(out[j].keys()) != [k] or not np.array_equal(want, got):
                viol.append(dict(case, kind="ParamTransform did not apply each transform to its own entry", entry=j))
            if not np.allclose(got, gotj, rtol=1e-12, atol=1e-12):
                viol.append(dict(case, kind="ParamTransform differs under jit", entry=j, eager=got.tolist(), jit=gotj.tolist()))
        back = pt.inverse(out)
        for j, k in enumerate(keys):
            if not np.allclose(np.asarray(back[j][k]), np.asarray(params[j][k]), rtol=1e-6, atol=1e-6):
                viol.append(dict(case, kind="ParamTransform round trip", entry=j))
    import regress
    evals += regress.run("C17", viol)
    for v in viol:
        v.setdefault("finding_class", None)
    return {"evaluations": evals, "distinct_nontrivial": len(distinct),
            "rule": "bounds, monotonicity (pairs x<x2) and both round trips of every transform class at x up to +-1e6 incl. the old clipping points (+-20, 50, -30); round trip only where the inverse is representable (conditioning-derived tolerance); ParamTransform on random pytrees incl. repeated parameter names with different transforms (the get_parameters() layout), eager vs jit; distinct by (transform, x)",
            "samples": samples, "violations": viol[:20]}


def replay(ctx, case):
    import jaxley.optimize.transforms as T
    k = case.get("transform")
    if k == "sigmoid":
        t = T.SigmoidTransform(case["lower"], case["upper"])
    elif k == "softplus":
        t = T.SoftplusTransform(case["bound"])
    elif k == "negsoftplus":
        t = T.NegSoftplusTransform(case["bound"])
    else:
        return {"violated": False, "note": "re-run the check with the same VERIF_SEED"}
    y = float(t.forward(case["x"]))
    back = float(t.inverse(y))
    return {"violated": "tol" in case and not abs(back - case["x"]) <= case["tol"], "y": y, "back": back}
