"""C14 — init_states puts every mechanism at its voltage-dependent steady state."""
import math

PROP_FILES = ["Props/C14.v"]
NEEDS_GEN = True
TRUSTED = ["tools/jaxpr2coq.py + tools/gen_layer_g.py (jaxpr -> Coq translator, validated each run against the real functions)",
           "jax.make_jaxpr as a faithful account of the traced computation"]
ASSUMPTIONS = ["real-number semantics of the traced init_state/update_states (float64 rounding not formalised; bounded by the direct predicate at 1e-9)",
               "module-level row selection of Module.init_states is tied by correspondence on sampled modules, not proved of the Python code"]

SING = [-40.0, -55.0, -35.0, -65.0, -27.0, -75.0, -13.0, -15.0]


def channels():
    from jaxley.channels import HH, Leak, Na, K, Km, CaL, CaT
    return [HH, Leak, Na, K, Km, CaL, CaT]


def sample_params(rng, ch):
    p = {}
    for k, d in ch.channel_params.items():
        if k == "vt":
            p[k] = rng.choice([-60.0, -63.0, float(rng.randint(-280, -200)) / 4])
        elif k.endswith("_vx"):
            p[k] = rng.choice([2.0, 0.0, float(rng.randint(-20, 20)) / 4])
        elif k.endswith("_taumax"):
            p[k] = rng.choice([4000.0, 1000.0, 608.0, 10.0 ** rng.uniform(0, 4)])
        else:
            p[k] = d * rng.choice([1.0, 0.5, 2.0, 10.0])
    return p


def sample_v(rng, params):
    vt = params.get("vt", -60.0)
    vx = next((v for k, v in params.items() if k.endswith("_vx")), 2.0)
    sing = SING + [vt + 13, vt + 40, vt + 15, vt + 17, vt + 10, -81 - vx, -84 - vx, -113.2 - vx]
    r = rng.random()
    if r < 0.35:
        import numpy as np
        x = rng.choice(sing)
        k = rng.choice([0, 0, 1, -1])
        return float(np.nextafter(x, math.inf if k > 0 else -math.inf)) if k else x
    if r < 0.5:
        return rng.choice(sing) + rng.choice([-1, 1]) * 10 ** rng.uniform(-9, -4)
    return rng.uniform(-120, 60)


def scalar_cases(ctx, n):
    """Direct predicate on the real pure functions."""
    import numpy as np
    viol, samples, distinct = [], [], set()
    evals = 0
    for cls in channels():
        for rename in (None, "xx"):
            for i in range(n):
                ch = cls()
                if rename:
                    ch.change_name(rename + cls.__name__)
                params = sample_params(ctx.rng, ch)
                v = sample_v(ctx.rng, params)
                dt = ctx.rng.choice([0.025, 10 ** ctx.rng.uniform(-3, 3)])
                states = {k: 0.2 for k in ch.channel_states}
                try:
                    s0 = ch.init_state(states, v, params, dt)
                    s0 = {k: float(x) for k, x in s0.items()}
                    full = dict(states)
                    full.update(s0)
                    s1 = {k: float(x) for k, x in ch.update_states(full, dt, v, params).items()}
                except Exception as ex:
                    viol.append({"kind": "init_state/update_states raised", "channel": cls.__name__,
                                 "renamed": bool(rename), "v": v, "dt": dt, "params": params, "error": repr(ex)})
                    continue
                evals += 1
                if ch.channel_states:
                    distinct.add((cls.__name__, round(v, 6), round(math.log10(dt), 3)))
                case = {"channel": cls.__name__, "renamed": bool(rename), "v": v, "dt": dt,
                        "params": params, "init": s0, "after_update": s1}
                if len(samples) < 3 and ch.channel_states:
                    samples.append(case)
                for k in ch.channel_states:
                    if k not in s0:
                        viol.append(dict(case, kind="init_state does not set " + k))
                        continue
                    a, b = s0[k], s1[k]
                    if not (math.isfinite(a) and math.isfinite(b) and 0.0 <= a <= 1.0 and abs(a - b) <= 1e-9):
                        viol.append(dict(case, kind="not a fixed point", state=k))
                        break
    return evals, len(distinct), samples, viol


def module_cases(ctx, n):
    """Module.init_states(): only rows with the channel are written, each with the steady
    state of its own voltage and parameters (compared with the regenerated Layer-G IR)."""
    import numpy as np
    import jaxley as jx
    import implib
    viol, samples = [], []
    evals = nontriv = 0
    clss = channels()
    for i in range(n):
        rng = ctx.rng
        nb = rng.randint(1, 3)
        counts = [rng.randint(1, 3) for _ in range(nb)]
        comp = jx.Compartment()
        cell = jx.Cell([jx.Branch([comp] * c) for c in counts], parents=[-1] + [rng.randint(0, b - 1) for b in range(1, nb)])
        ncomp = sum(counts)
        chosen = rng.sample(clss, rng.randint(1, 4))
        inserted = []
        for cls in chosen:
            ch = cls()
            if rng.random() < 0.3:
                ch.change_name("my" + cls.__name__)
            rows = sorted(rng.sample(range(ncomp), rng.randint(1, ncomp)))
            cell.select(nodes=rows).insert(ch) if hasattr(cell, "select") else None
            inserted.append((cls, ch, rows))
        # heterogeneous voltages and parameters per compartment; every third module has plateaus of
        # EQUAL voltage (the default situation) while the gate-relevant parameters still differ
        vs = [sample_v(rng, {}) for _ in range(ncomp)]
        if i % 3 == 0:
            plateau = [rng.choice([-70.0, -55.0, vs[0]]) for _ in range(2)]
            vs = [plateau[r % 2] if rng.random() < 0.8 else vs[r] for r in range(ncomp)]
        for r in range(ncomp):
            cell.select(nodes=[r]).set("v", vs[r])
        for cls, ch, rows in inserted:
            for k in ch.channel_params:
                if k in ("vt",) or k.endswith("_vx") or k.endswith("_taumax"):
                    for r in rows:
                        val = sample_params(rng, ch)[k]
                        cell.select(nodes=[r]).set(k, val)
        before = cell.nodes.copy()
        dt = 0.025
        try:
            cell.init_states(delta_t=dt)
        except Exception as ex:
            viol.append({"kind": "init_states raised", "counts": counts, "error": repr(ex),
                         "channels": [(c.__name__, ch._name, rows) for c, ch, rows in inserted]})
            continue
        after = cell.nodes
        evals += 1
        partial = any(len(rows) < ncomp for _, _, rows in inserted)
        if partial and len(inserted) > 1:
            nontriv += 1
        desc = {"counts": counts, "v": vs, "channels": [(c.__name__, ch._name, rows) for c, ch, rows in inserted]}
        if len(samples) < 2:
            samples.append(desc)
        for cls, ch, rows in inserted:
            prefix = ch._name
            for skey in ch.channel_states:
                sname = skey[len(prefix) + 1:]
                for r in range(ncomp):
                    b, a = before.loc[r, skey], after.loc[r, skey]
                    if r not in rows:
                        same = (a == b) or (isinstance(a, float) and isinstance(b, float) and math.isnan(a) and math.isnan(b))
                        if not same:
                            viol.append(dict(desc, kind="row without the channel was written", row=r, key=skey, before=repr(b), after=repr(a)))
                        continue
                    args = {}
                    fn = implib.ir(f"{cls.__name__}_init")
                    for an, _ in fn.args:
                        if an == "v":
                            args[an] = float(after.loc[r, "v"])
                        elif an == "dt":
                            args[an] = dt
                        elif prefix + "_" + an in after.columns:
                            args[an] = float(before.loc[r, prefix + "_" + an])
                        else:
                            args[an] = float(before.loc[r, an])
                    want = float(implib.ir_eval(f"{cls.__name__}_init", **args)[sname])
                    if not (math.isfinite(float(a)) and abs(float(a) - want) <= 1e-9):
                        viol.append(dict(desc, kind="row not at the steady state of its own voltage/parameters",
                                         row=r, key=skey, got=float(a), expected=want, args=args))
        # every other column untouched
        statecols = {k for _, ch, _ in inserted for k in ch.channel_states}
        for col in before.columns:
            if col in statecols:
                continue
            if not before[col].equals(after[col]):
                viol.append(dict(desc, kind="init_states changed column " + col))
    return evals, nontriv, samples, viol


def run(ctx):
    broken = not ctx.proof_ok
    n1 = ctx.budget(40, 400) * (3 if broken else 1)
    n2 = ctx.budget(12, 120)
    e1, d1, s1, v1 = scalar_cases(ctx, n1)
    e2, d2, s2, v2 = module_cases(ctx, n2)
    viol = v1 + v2
    import regress
    e2 += regress.run("C14", viol)
    for v in viol:
        v.setdefault("finding_class", None)
    return {"evaluations": e1 + e2, "distinct_nontrivial": d1 + d2,
            "rule": "scalar: (channel, renamed?, v incl. singular voltages +-1ulp, dt, parameters) with a gating state, distinct by (channel, v, dt); "
                    "module: random cells with partial insertion of several (possibly renamed) channels and per-compartment v/vt/vx/taumax (incl. plateaus of equal voltage with differing parameters), non-trivial = >1 channel and a partial insertion",
            "samples": s1 + s2, "violations": viol[:20],
            "scalar_evaluations": e1, "module_evaluations": e2}


def replay(ctx, case):
    from jaxley.channels import HH, Leak, Na, K, Km, CaL, CaT
    if "channel" in case and "v" in case and "params" in case:
        cls = {c.__name__: c for c in channels()}[case["channel"]]
        ch = cls()
        if case.get("renamed"):
            ch.change_name("xx" + cls.__name__)
        params = {k: v for k, v in zip(ch.channel_params, case["params"].values())}
        states = {k: 0.2 for k in ch.channel_states}
        s0 = {k: float(x) for k, x in ch.init_state(states, case["v"], params, case["dt"]).items()}
        full = dict(states); full.update(s0)
        s1 = {k: float(x) for k, x in ch.update_states(full, case["dt"], case["v"], params).items()}
        bad = any(not (math.isfinite(s0[k]) and abs(s0[k] - s1[k]) <= 1e-9) for k in s0)
        return {"violated": bad, "init": s0, "after_update": s1}
    return {"violated": False, "note": "module-level case: re-run the check with the same VERIF_SEED"}
