"""C01 — every voltage step is the exact solution of the discretised cable equation."""
import itertools
import math

PROP_FILES = ["Props/C01.v"]
NEEDS_GEN = True
TRUSTED = ["Model/HinesArr.v mirrors solver_voltage.py + tridiax.thomas by hand (vmap lanes are sequentialised); tools/hineslib.py reads the index structures from the module",
           "Model/Cable.v + Model/TreeSolve.v are hand-written; compared on every run with Module.step (all backends) and with an independent exact assembly of the physical system (tools/cablelib.py)",
           "jax.experimental.sparse.linalg.spsolve and tridiax.stone are third-party and only compared, not modelled",
           "float64 rounding: bounded by the componentwise backward error (<= 1e-9) of every backend's output"]
ASSUMPTIONS = ["the for-all is proved of the model (all trees, counts, positive parameters) and tested of the code on enumerated trees x sampled counts/parameters",
               "the level-ordered, padded array implementation is modelled operation by operation (Model/HinesArr.v, compared with step_voltage_implicit_with_jaxley_spsolve on the code's own index structures); its correctness for all array contents and EVERY cell is a theorem about the index structure computed by Model/HinesIdx.v, which is compared exactly with the code's JaxleySolveIndexer on every sampled cell (for networks the checker is evaluated per sampled structure)"]

BACKENDS = ["jaxley.thomas", "jaxley.stone", "jax.sparse"]


def gen_cells(ctx):
    import simlib
    rng = ctx.rng
    cells = []
    maxb = ctx.budget(4, 5)
    trees = [p for nb in range(1, maxb + 1) for p in simlib.all_parents(nb)]
    per_tree = ctx.budget(1, 4)
    for parents in trees:
        nb = len(parents)
        for _ in range(per_tree):
            counts = [rng.choice([1, 2, 3]) for _ in range(nb)]
            cells.append((parents, counts))
    # the critical structure: a parent branch shorter than its level's longest branch
    for parents, counts in [([-1, 0, 0, 1, 1], [2, 1, 3, 2, 2]), ([-1, 0, 0, 1], [1, 1, 2, 1]),
                            ([-1, 0, 0, 2, 2, 1], [3, 2, 1, 1, 2, 2]), ([-1, 0, 1, 1, 0], [1, 3, 1, 2, 1])]:
        cells.append((parents, counts))
    for _ in range(ctx.budget(4, 40)):
        nb = rng.randint(5, ctx.budget(7, 12))
        cells.append((simlib.rand_parents(rng, nb), [rng.randint(1, ctx.budget(4, 6)) for _ in range(nb)]))
    return cells


def padded_parent(parents, counts):
    """does some branch WITH children have fewer compartments than the longest branch of its level?"""
    lev = [0] * len(parents)
    for b, p in enumerate(parents):
        lev[b] = 0 if p < 0 else lev[p] + 1
    mx = {}
    for b, l in enumerate(lev):
        mx[l] = max(mx.get(l, 0), counts[b])
    has_kids = set(p for p in parents if p >= 0)
    return any(counts[b] < mx[lev[b]] for b in has_kids)


def graph_residual(st, vals, out):
    """largest relative residual of the graph equations  z_c (1 + dt vt_c) + dt sum_{e into c, type<=2} g_e (z_c - z_src) = v_c + dt ct_c,
    with the branch-point values determined by  sum_{e into j, type 3/4} g_e (z_src - y_j) = 0;  exact rational arithmetic"""
    from fractions import Fraction as Fr
    n = st["ncomp"]
    z = [Fr(x) for x in out]
    g = [Fr(x) for x in vals["g"]]
    v, vt, ct, dt = [Fr(x) for x in vals["v"]], [Fr(x) for x in vals["vt"]], [Fr(x) for x in vals["ct"]], Fr(vals["dt"])
    num, den = {}, {}
    for (src, snk, t), ge in zip(st["edges"], g):
        if t in (3, 4):
            num[snk] = num.get(snk, 0) + ge * z[src]
            den[snk] = den.get(snk, 0) + ge
    y = {j: num[j] / den[j] for j in num}
    val = lambda node: z[node] if node < n else y[node]
    worst = Fr(0)
    for c in range(n):
        lhs = z[c] * (1 + dt * vt[c])
        scale = abs(z[c]) * (1 + dt * vt[c]) + abs(v[c] + dt * ct[c])
        for (src, snk, t), ge in zip(st["edges"], g):
            if t <= 2 and snk == c:
                lhs += dt * ge * (z[c] - val(src))
                scale += dt * ge * (abs(z[c]) + abs(val(src)))
        worst = max(worst, abs(lhs - (v[c] + dt * ct[c])) / scale)
    return float(worst)


def wide_level_cases(viol):
    """levels that are many compartments wide.  The theorems are about exact arithmetic; in floating point the
    recursive-doubling kernel of the `jaxley.stone` backend (tridiax.stone) under/overflows on a (padded) branch of
    ~80-128 rows whose entries differ strongly in size - and the padding with identity rows manufactures exactly
    that.  Reference: the dense backward-Euler system of tools/cablelib.py solved with LAPACK.
    `jaxley.thomas` and `jax.sparse` must agree with it; `jaxley.stone` failing on a level >= 80 rows wide is the
    known finding F64; any other disagreement is a violation."""
    import numpy as np
    import cablelib
    import simlib
    n_cases = 0
    for name, counts, overrides in [
        ("siblings of 128 and 16 compartments (16: r=1, l=1, r_a=100)", [1, 128, 16], {2: dict(r=1.0, l=1.0, ra=100.0)}),
        ("siblings of 48 and 8 compartments (ordinary parameters)", [1, 48, 8], {2: dict(r=1.0, l=2.0, ra=1000.0)}),
    ]:
        parents = [-1, 0, 0]
        n = sum(counts)
        r, l, ra = [1.0] * n, [10.0] * n, [5000.0] * n
        off = 0
        for b, c in enumerate(counts):
            for k in range(off, off + c):
                if b in overrides:
                    r[k], l[k], ra[k] = overrides[b]["r"], overrides[b]["l"], overrides[b]["ra"]
            off += c
        spec = cablelib.CellSpec(parents, counts, r, l, ra, [1.0] * n, [2.0 ** -13] * n, [-70.0] * n,
                                 [-65.0 - (k % 7) for k in range(n)], [0.0] * n)
        A, rhs = spec.system(0.025)
        ref = np.linalg.solve(np.asarray([[float(x) for x in row] for row in A]), np.asarray([float(x) for x in rhs]))
        cell = simlib.cell_from_spec(spec)
        width = max(counts)
        for vs in ("jaxley.thomas", "jax.sparse", "jaxley.stone"):
            out = np.asarray(simlib.one_step(cell, 0.025, "bwd_euler", vs))
            n_cases += 1
            bad = (~np.isfinite(out)).any() or float(np.abs(out - ref).max()) > 1e-7
            if bad:
                known = vs == "jaxley.stone" and width >= 80
                viol.append({"kind": "a backend returns NaN or voltages that are not the solution of the scheme on a wide level", "case": name,
                             "counts": counts, "backend": vs, "non_finite": int((~np.isfinite(out)).sum()),
                             "max_abs_err_mV": None if not np.isfinite(out).all() else float(np.abs(out - ref).max()),
                             "finding_class": "stone_recursive_doubling_underflow" if known else None})
    return n_cases


def sparse_system_cases(viol, rng, mods):
    """Model/SparseAsm.v (about which C01_sparse_backend_* are proved) against what step_voltage_implicit_with_jax_spsolve
    hands to spsolve: the call is intercepted, the matrix spsolve solves with is rebuilt from (data, indices, indptr) read
    as CSR (what jax's spsolve does) and compared entry by entry with sp_dense / sp_rhs_list in exact rationals.  The
    conductances are drawn independently per directed edge, so a transposed or mis-indexed entry shows."""
    import re
    import numpy as np
    import jax.numpy as jnp
    import hineslib
    import cablelib
    import coqeval
    import jaxley.solver_voltage as sv
    exprs, real = [], []
    q = cablelib.q
    ql = lambda xs: "[" + "; ".join(q(x) for x in xs) + "]"
    red = "(fun x => (Qnum (Qred x), Zpos (Qden (Qred x))))"
    for case, m in mods:
        st = hineslib.structure(m)
        if st["ncomp"] + len(st["par_inds"]) > 16:
            continue
        g, v0, vt, ct, dtq = hineslib.random_values(rng, st)
        cap = {}
        orig = sv.jax_spsolve

        def fake(data, indices, indptr, b, *a, **k):
            cap["args"] = (np.asarray(data, dtype=float), np.asarray(indices), np.asarray(indptr), np.asarray(b, dtype=float))
            return orig(data, indices, indptr, b, *a, **k)
        sv.jax_spsolve = fake
        try:
            ce = m._comp_edges
            out = sv.step_voltage_implicit_with_jax_spsolve(
                voltages=jnp.asarray([float(x) for x in v0]), voltage_terms=jnp.asarray([float(x) for x in vt]),
                constant_terms=jnp.asarray([float(x) for x in ct]), axial_conductances=jnp.asarray([float(x) for x in g]),
                data_inds=m._data_inds, indices=m._indices_jax_spsolve, indptr=m._indptr_jax_spsolve,
                sinks=np.asarray(ce["sink"].to_list()), delta_t=float(dtq), n_nodes=m._n_nodes, internal_node_inds=m._internal_node_inds)
        finally:
            sv.jax_spsolve = orig
        data, indices, indptr, b = cap["args"]
        n = len(b)
        A = np.zeros((n, n))
        for r in range(n):
            for k in range(indptr[r], indptr[r + 1]):
                A[r, indices[k]] += data[k]
        es = "[" + "; ".join(f"(mkedge {a}%nat {bb}%nat {t}%nat {q(x)})" for (a, bb, t), x in zip(st["edges"], g)) + "]"
        exprs.append(f"(map (map {red}) (sp_dense Q Qplus Qminus Qmult 0 1 {n}%nat {st['ncomp']}%nat {es} (fun i => nth i {ql(vt)} 0) {q(dtq)}), "
                     f"map {red} (sp_rhs_list Q Qplus Qmult 0 {n}%nat {st['ncomp']}%nat (fun i => nth i {ql(v0)} 0) (fun i => nth i {ql(ct)} 0) {q(dtq)}))")
        real.append((case, A, b, n, [float(x) for x in np.asarray(out)], st, g, v0, vt, ct, dtq))
    outs = coqeval.coq_eval(["HinesArr", "SparseAsm"], exprs, prelude="Local Open Scope Q_scope.", shard=4)
    for (case, A, b, n, out, st, g, v0, vt, ct, dtq), o in zip(real, outs):
        ints = [int(x) for x in re.findall(r"-?\d+", o.replace("%Z", ""))]
        vals = [ints[i] / ints[i + 1] for i in range(0, len(ints) - 1, 2)]
        if len(vals) != n * n + n:
            viol.append(dict(case, kind="Model/SparseAsm.v and the jax.sparse backend disagree on the number of nodes", nodes_code=n, model_values=len(vals), no_failing_input_found=True))
            continue
        Am = np.asarray(vals[: n * n]).reshape(n, n)
        bm = np.asarray(vals[n * n:])
        if np.max(np.abs(Am - A)) > 1e-12 * max(1.0, np.max(np.abs(A))) or np.max(np.abs(bm - b)) > 1e-12 * max(1.0, np.max(np.abs(b))):
            i, j = np.unravel_index(np.argmax(np.abs(Am - A)), A.shape)
            viol.append(dict(case, kind="the linear system the jax.sparse backend hands to spsolve differs from Model/SparseAsm.v (theorems C01_sparse_backend_* are about the model)",
                             entry=[int(i), int(j)], code=float(A[i, j]), model=float(Am[i, j]), rhs_code=[float(x) for x in b][:12], rhs_model=[float(x) for x in bm][:12],
                             edges=st["edges"], g=[float(x) for x in g], dt=float(dtq)))
        # ... and the solution spsolve returns solves that system (backward error)
        z = np.linalg.solve(A, b)
        if np.max(np.abs(np.asarray(out) - z[: len(out)])) > 1e-8 * max(1.0, np.max(np.abs(z))):
            viol.append(dict(case, kind="jax.sparse returns voltages that do not solve the system it assembled", got=out, solution=[float(x) for x in z[: len(out)]]))
    return len(real)


def run(ctx):
    import numpy as np
    import jaxley as jx
    import simlib
    import cablelib
    import coqeval
    from fractions import Fraction as Fr
    rng = ctx.rng
    viol, samples, distinct = [], [], set()
    evals = 0
    coq_jobs = []
    ncrit = 0
    cells = gen_cells(ctx)
    for parents, counts in cells:
        spec = simlib.rand_spec(rng, parents, counts, stim=rng.random() < 0.5)
        dt = rng.choice([0.025, 0.025, 1.0, 1000.0, float(10 ** rng.randint(4, 9))])
        solver = rng.choice(["bwd_euler", "bwd_euler", "crank_nicolson"])
        case = {"parents": parents, "counts": counts, "dt": dt, "solver": solver,
                "radius": [float(x) for x in spec.r], "length": [float(x) for x in spec.l],
                "axial_resistivity": [float(x) for x in spec.ra], "capacitance": [float(x) for x in spec.cm],
                "gLeak": [float(x) for x in spec.g], "eLeak": [float(x) for x in spec.e],
                "v": [float(x) for x in spec.v], "i_nA": [float(x) for x in spec.i]}
        try:
            cell = simlib.cell_from_spec(spec)
        except Exception as ex:
            viol.append(dict(case, kind="construction raised", error=repr(ex)[:300]))
            continue
        crit = padded_parent(parents, counts)
        ncrit += crit
        exact = spec.step(dt, solver)
        scale = max(1.0, max(abs(float(x)) for x in exact))
        outs = {}
        for vs in BACKENDS:
            try:
                outs[vs] = simlib.one_step(cell, dt, solver, vs)
            except (NotImplementedError, AssertionError, ValueError) as ex:
                outs[vs] = None          # a backend may refuse a model
                case.setdefault("refused", {})[vs] = repr(ex)[:120]
            except Exception as ex:
                viol.append(dict(case, kind="backend raised unexpectedly", backend=vs, error=repr(ex)[:300]))
                outs[vs] = None
            evals += 1
        distinct.add((tuple(parents), tuple(counts)))
        for vs, o in outs.items():
            if o is None:
                continue
            if not np.all(np.isfinite(o)):
                viol.append(dict(case, kind="non-finite voltages", backend=vs))
                continue
            be = spec.backward_error(dt, [Fr(float(x)) for x in o], solver)
            fe = max(abs(float(x) - float(y)) for x, y in zip(o, exact))
            if be > 1e-9 or fe > 1e-7 * scale:
                viol.append(dict(case, kind="voltages are not the solution of the discretised cable equation",
                                 backend=vs, backward_error=be, forward_error=fe, got=[float(x) for x in o],
                                 exact=[float(x) for x in exact], padded_parent=crit))
        got = [o for o in outs.values() if o is not None]
        for a, b in itertools.combinations(got, 2):
            if np.abs(a - b).max() > 1e-8 * scale:
                viol.append(dict(case, kind="accepting backends disagree", maxdiff=float(np.abs(a - b).max())))
                break
        if len(samples) < 2:
            samples.append(dict(case, exact=[float(x) for x in exact]))
        fn = "step_bwdQ" if solver == "bwd_euler" else "step_cnQ"
        if sum(counts) <= 12 and got:
            coq_jobs.append((f"{fn} {spec.coq_parents()} {spec.coq_branches()} {cablelib.q(Fr(dt))}", exact, got[0], case))

    # ---- forward Euler: unbranched only; refusals
    for _ in range(ctx.budget(4, 30)):
        n = rng.randint(1, 5)
        spec = simlib.rand_spec(rng, [-1], [n], stim=True)
        dt = rng.choice([0.025, 0.001])
        cell = simlib.cell_from_spec(spec)
        exact = spec.step(dt, "fwd_euler")
        case = {"parents": [-1], "counts": [n], "dt": dt, "solver": "fwd_euler"}
        for vs in ["jaxley.thomas", "jaxley.stone"]:
            try:
                o = simlib.one_step(cell, dt, "fwd_euler", vs)
                evals += 1
                if max(abs(float(x) - float(y)) for x, y in zip(o, exact)) > 1e-9 * 100:
                    viol.append(dict(case, kind="forward Euler step differs from the explicit scheme", backend=vs,
                                     got=[float(x) for x in o], exact=[float(x) for x in exact]))
            except Exception as ex:
                viol.append(dict(case, kind="forward Euler raised on an unbranched cable", error=repr(ex)[:200]))
        cs = "[" + "; ".join(spec.coq_branches()[2:-2].split("; ")) + "]"
        coq_jobs.append((f"step_fwdQ {spec.coq_branches()[1:-1]} {cablelib.q(Fr(dt))}", exact, o if 'o' in dir() else None, case))
    # malformed stream: what must be refused
    comp = jx.Compartment()
    for parents, counts in [([-1, 0, 0], [2, 2, 2]), ([-1, 0], [1, 3])]:
        with simlib.quiet():
            cell = simlib.cell_from_spec(simlib.rand_spec(rng, parents, counts))
        evals += 1
        try:
            o = simlib.one_step(cell, 0.025, "fwd_euler", "jaxley.thomas")
            viol.append({"kind": "forward Euler accepted a branched cell", "parents": parents, "counts": counts})
        except Exception:
            pass
    for counts in [[1, 3], [2, 1, 3]]:
        with simlib.quiet():
            from jaxley.channels import Leak
            net = jx.Network([jx.Cell([jx.Branch([comp] * c)], parents=[-1]) for c in counts])
            net.insert(Leak())
            for k in range(sum(counts)):
                net.select(nodes=[k]).set("v", -70.0 + 3 * k)
            net.record("v")
        evals += 1
        try:
            o = simlib.one_step(net, 0.025, "fwd_euler", "jaxley.thomas")
            # accepted: then every cell must evolve as if alone
            alone = []
            off = 0
            for c in counts:
                sp = cablelib.CellSpec([-1], [c], [1.0] * c, [10.0] * c, [5000.0] * c, [1.0] * c, [1e-4] * c, [-70.0] * c,
                                       [-70.0 + 3 * (off + k) for k in range(c)])
                alone += [float(x) for x in sp.step(0.025, "fwd_euler")]
                off += c
            if max(abs(a - b) for a, b in zip(o, alone)) > 1e-9:
                viol.append({"kind": "forward Euler coupled compartments of different cells", "counts": counts,
                             "got": [float(x) for x in o], "expected": alone})
        except Exception:
            pass
    for parents in [[-1, 2, 0], [-1, 0, 3, 1], [0, -1]]:
        evals += 1
        try:
            with simlib.quiet():
                cell = jx.Cell([jx.Branch([comp] * 2)] * len(parents), parents=parents)
                from jaxley.channels import Leak
                cell.insert(Leak())
                for k in range(2 * len(parents)):
                    cell.select(nodes=[k]).set("v", -70.0 + 2 * k)
                cell.record("v")
            outs = []
            for vs in BACKENDS:
                try:
                    outs.append(simlib.one_step(cell, 0.025, "bwd_euler", vs))
                except Exception:
                    pass
            if len(outs) >= 2 and max(np.abs(a - outs[-1]).max() for a in outs) > 1e-8:
                viol.append({"kind": "unsorted parent vector accepted and backends return different voltages", "parents": parents})
        except Exception:
            pass    # refused: fine

    # ---- networks: block diagonal (critical shapes first: point neurons, trailing point neuron)
    NETS = [[([-1], [1]), ([-1], [1]), ([-1], [1])], [([-1], [2]), ([-1], [1])], [([-1, 0], [1, 2]), ([-1], [1]), ([-1], [1])]]
    for ni in range(ctx.budget(3, 20) + len(NETS)):
        k = rng.randint(2, 3)
        specs = []
        if ni < len(NETS):
            specs = [simlib.rand_spec(rng, p, c) for p, c in NETS[ni]]
        for _c in range(k if ni >= len(NETS) else 0):
            nb = rng.randint(1, 3)
            specs.append(simlib.rand_spec(rng, simlib.rand_parents(rng, nb), [rng.randint(1, 3) for _ in range(nb)]))
        dt = rng.choice([0.025, 10.0])
        try:
            with simlib.quiet():
                net = jx.Network([simlib.cell_from_spec(s) for s in specs])
                net.delete_recordings()
                net.record("v")
        except Exception as ex:
            viol.append({"kind": "network construction raised", "error": repr(ex)[:200]})
            continue
        exact = [x for s in specs for x in s.step(dt, "bwd_euler")]
        case = {"network_of": [(s.parents, s.counts) for s in specs], "dt": dt}
        for vs in BACKENDS:
            try:
                o = simlib.one_step(net, dt, "bwd_euler", vs)
            except (NotImplementedError, AssertionError, ValueError):
                continue
            evals += 1
            distinct.add(("net", tuple(tuple(s.counts) for s in specs)))
            if max(abs(float(x) - float(y)) for x, y in zip(o, exact)) > 1e-7 * 100:
                viol.append(dict(case, kind="network without synapses does not solve every cell's system", backend=vs,
                                 got=[float(x) for x in o], exact=[float(x) for x in exact]))

    # ---- correspondence with the Coq model (exact rationals, vm_compute)
    nmodel = 0
    try:
        outs = coqeval.coq_eval(["CableQ"], [j[0] for j in coq_jobs], prelude="Open Scope Q_scope.", shard=3)
        for (expr, exact, impl, case), o in zip(coq_jobs, outs):
            if expr.startswith("step_fwdQ"):
                model = cablelib.parse_q_list(o)
            else:
                d = cablelib.parse_q_pairs(o)
                model = [d[k] for k in sorted(d)]
            nmodel += 1
            if len(model) != len(exact) or any(m != x for m, x in zip(model, exact)):
                # the Coq model and the independent physical assembly are both exact: they must agree exactly
                viol.append(dict(case, kind="Coq cable model differs from the physical reference system (model error)",
                                 model=[float(m) for m in model], exact=[float(x) for x in exact], no_failing_input_found=True))
            elif impl is not None and max(abs(float(m) - float(x)) for m, x in zip(model, impl)) > 1e-7 * 100:
                viol.append(dict(case, kind="implementation differs from the Coq model", model=[float(m) for m in model],
                                 got=[float(x) for x in impl]))
    except Exception as ex:
        viol.append({"kind": "correspondence could not be evaluated", "error": repr(ex)[:800], "no_failing_input_found": True})
    # ---- array level: the code's own index structures through Model/HinesArr.v and the verified
    #      schedule checker (theorem C01_array_solver_correct)
    narr = 0
    nidx = 0
    nasm = 0
    necond = 0
    nidxf = 0
    nsparse = 0
    try:
        import hineslib
        from jaxley.solver_voltage import step_voltage_implicit_with_jaxley_spsolve  # noqa: F401
        comp = jx.Compartment()
        shapes = [([-1, 0, 0, 1], [2, 1, 3, 2]), ([-1], [1]), ([-1], [3]), ([-1, 0, 0], [1, 1, 1]), ([-1, 0, 0, 2, 2], [2, 3, 1, 1, 2]),
                  ([-1, 0, 0, 1, 1, 3], [1, 2, 1, 3, 1, 1]), ([-1, 0, 0, 1, 1], [2, 1, 3, 2, 2]), ([-1, 0, 1, 1, 0], [1, 3, 1, 2, 1])]
        for _ in range(ctx.budget(6, 40)):
            nb = rng.randint(2, ctx.budget(7, 12))
            shapes.append((simlib.rand_parents(rng, nb), [rng.randint(1, 4) for _ in range(nb)]))
        mods = []
        with simlib.quiet():
            for parents, counts in shapes:
                mods.append(({"parents": parents, "counts": counts}, jx.Cell([jx.Branch([comp] * n) for n in counts], parents=parents)))
            for cells in ([([-1, 0], [2, 1]), ([-1], [2]), ([-1, 0, 0], [2, 2, 2])], [([-1], [1]), ([-1], [1])],
                          [([-1, 0, 0, 1], [2, 1, 2, 1]), ([-1, 0], [2, 1]), ([-1], [2])], [([-1, 0], [2, 1]), ([-1], [1])]):
                mods.append(({"network_of": cells}, jx.Network([jx.Cell([jx.Branch([comp] * n) for n in c], parents=q) for q, c in cells])))
            for _ in range(ctx.budget(4, 24)):
                cells = []
                for _ in range(rng.randint(1, 4)):
                    nb_ = rng.randint(1, ctx.budget(5, 8))
                    cells.append((simlib.rand_parents(rng, nb_) if nb_ > 1 else [-1], [rng.randint(1, 4) for _ in range(nb_)]))
                mods.append(({"network_of": cells}, jx.Network([jx.Cell([jx.Branch([comp] * n) for n in c], parents=q) for q, c in cells])))
        exprs, metas, idx_jobs, idxf_jobs = [], [], [], []
        for case, m in mods:
            st = hineslib.structure(m)
            g, v0, vt, ct, dtq = hineslib.random_values(rng, st)
            try:
                chk = hineslib.coq_check_expr(st)
            except AssertionError as ex:
                viol.append(dict(case, kind="comp_edges of the module are not the edges of a branched cable", error=str(ex)))
                continue
            try:
                reals = {sv: hineslib.run_real(m, st, g, v0, vt, ct, dtq, sv) for sv in ("jaxley.thomas", "jaxley.stone")}
            except (AssertionError, NotImplementedError, ValueError):
                continue        # the jaxley backends refuse this structure (allowed by the property)
            exprs += [hineslib.coq_step_expr(st, g, v0, vt, ct, dtq), hineslib.coq_step_expr(st, g, v0, vt, ct, dtq, fn="arr_divisors_okQ"), chk,
                      hineslib.coq_mstore_expr(st, g, v0, vt, ct, dtq), hineslib.coq_asmstruct_expr(st), hineslib.coq_graphstruct_expr(st)]
            if "parents" in case:
                # Model/HinesIdx.v (about which C01_checker_accepts_every_cell is proved) must produce
                # exactly the index structure the code built
                idx_jobs.append(("idx_summary " + hineslib.nat_list([max(q_, 0) for q_ in case["parents"]]) + " " + hineslib.nat_list(case["counts"]), case, st))
            if "network_of" in case:
                # Model/HinesIdxF.v / Model/AsmIdxF.v (about which the C01_*_every_network_* theorems are proved) must
                # produce exactly what the code built for this network: global parents, root flags, counts
                gp_ = [int(x_) for x_ in np.asarray(m.comb_parents)]       # the code's own global parent vector (-1: root)
                ps_ = [max(x_, 0) for x_ in gp_]
                rs_ = [x_ < 0 for x_ in gp_]
                ns_ = [int(x_) for x_ in np.asarray(m.ncomp_per_branch)]
                cellno_ = list(np.cumsum(rs_))
                hyp_ok = (len(ps_) >= 1 and all(rs_[b_] or ps_[b_] < b_ for b_ in range(len(ps_))) and all(n_ >= 1 for n_ in ns_)
                          and all(rs_[b_] or cellno_[ps_[b_]] == cellno_[b_] for b_ in range(len(ps_))))
                if not hyp_ok:
                    viol.append(dict(case, kind="the network's global parent vector / root flags / counts do not meet the hypotheses of the C01_*_every_network_* and C12_cells_of_every_network_independent theorems",
                                     comb_parents=gp_, ncomp_per_branch=ns_, no_failing_input_found=True))
                st["cell_of_comp"] = [int(x_) for x_ in m.nodes["global_cell_index"].to_numpy()]
                st["cell_of_branch"] = [int(x_) for x_ in m.nodes.groupby("global_branch_index")["global_cell_index"].first().to_numpy()]
                idxf_jobs.append(((hineslib.nat_list(ps_), hineslib.nat_list(ns_), "[" + "; ".join("true" if r_ else "false" for r_ in rs_) + "]"), case, st))
            metas.append((case, st, reals, dict(g=[float(x) for x in g], v=[float(x) for x in v0], vt=[float(x) for x in vt], ct=[float(x) for x in ct], dt=float(dtq))))
        outs = coqeval.coq_eval(["CableQ", "HinesArr", "HinesArrQ", "HinesCheck", "AsmStruct", "GraphStruct"], exprs, shard=6)
        for k, (case, st, reals, vals) in enumerate(metas):
            model = [float(x) for x in cablelib.parse_q_list(outs[6 * k])]
            narr += 1
            evals += 2
            distinct.add(("arr", str(case)))
            for sv, o in reals.items():
                # the conclusion of C01_every_cell_step_solves_the_cable_graph_equations, checked directly on the code's
                # output: backward-Euler equations of the conductance graph given by comp_edges (exact rationals)
                res = graph_residual(st, vals, o)
                if res > 1e-9:
                    viol.append(dict(case, kind="the output of step_voltage_implicit_with_jaxley_spsolve does not satisfy the backward-Euler equations of the conductance graph (comp_edges)",
                                     solver=sv, values=vals, relative_residual=res, got=o))
                if len(o) != len(model) or max(abs(a - b) for a, b in zip(o, model)) > 1e-9 * 100:
                    viol.append(dict(case, kind="step_voltage_implicit_with_jaxley_spsolve differs from the array-level model (Model/HinesArr.v)",
                                     solver=sv, values=vals, got=o, model=model))
            if outs[6 * k + 1] != "true":
                viol.append(dict(case, kind="the array-level model divides by zero on a diagonally dominant system", values=vals))
            if outs[6 * k + 3] != "true":
                viol.append(dict(case, kind="the assembled arrays are not M-matrix-like (hypothesis of C01_array_solver_total)", values=vals, no_failing_input_found=True))
            if outs[6 * k + 4] != "true":
                viol.append(dict(case, kind="the index lists the code hands to the assembly (comp_edges by type, branchpoint groups, child_inds, par_inds, slot remapping) are not consistent with layout and topology (hypothesis of C01_implicit_step_total)",
                                 edges=st["edges"], group=st["group"], child_inds=st["child_inds"], par_inds=st["par_inds"], mask=st["mask"], no_failing_input_found=True))
            if outs[6 * k + 5] != "true":
                viol.append(dict(case, kind="the code's edge table / index lists fail the decidable conditions under which the assembled system is the graph system (hypothesis of C01_accepted_structure_step_solves_the_graph_equations)",
                                 edges=st["edges"], group=st["group"], child_inds=st["child_inds"], par_inds=st["par_inds"], mask=st["mask"], no_failing_input_found=True))
            if outs[6 * k + 2] != "true":
                viol.append(dict(case, kind="the verified schedule checker rejects the index structure the code built (theorem C01_array_solver_correct no longer applies)",
                                 cumsum=st["cs"], padded=st["pl"], ncomp=st["nc"], levels=st["levels"], roots=st["roots"], no_failing_input_found=True))
        # Model/EdgeCond.v (= compute_axial_conductances; C01_every_cell_step_in_physical_parameters) against the code:
        # which conductance goes on which edge, exact rationals vs floats
        try:
            from fractions import Fraction as Fr
            import jax.numpy as jnp
            from jaxley.utils.cell_utils import compute_axial_conductances
            ec_exprs, ec_real = [], []
            for case, m in mods:
                st_ = hineslib.structure(m)
                n_ = st_["ncomp"]
                dyq = lambda lo, hi, den=8: Fr(rng.randint(int(lo * den), int(hi * den)), den)
                P = {k: [dyq(*rg) for _ in range(n_)] for k, rg in (("radius", (0.25, 4)), ("length", (2, 40)), ("axial_resistivity", (500, 8000)), ("capacitance", (0.5, 2)))}
                real = [float(x) for x in np.asarray(compute_axial_conductances(m._comp_edges, {k: jnp.asarray([float(x) for x in v]) for k, v in P.items()}))]
                ql = lambda xs: "[" + "; ".join(cablelib.q(x) for x in xs) + "]"
                ts = "[" + "; ".join(f"({a}%nat, {b}%nat, {t}%nat)" for (a, b, t) in st_["edges"]) + "]"
                ec_exprs.append(f"map (fun g => (Qnum (Qred g), Zpos (Qden (Qred g)))) (map (edge_cond Q Qplus Qmult Qdiv 10000000 1000 (fun i => nth i {ql(P['radius'])} 0) (fun i => nth i {ql(P['length'])} 0) "
                                f"(fun i => nth i {ql(P['axial_resistivity'])} 0) (fun i => nth i {ql(P['capacitance'])} 0)) {ts})")
                ec_real.append((case, real))
            import re as _re
            for (case, real), o in zip(ec_real, coqeval.coq_eval(["AsmStruct", "EdgeCond"], ec_exprs, prelude="Local Open Scope Q_scope.", shard=4)):
                ints = [int(x) for x in _re.findall(r"-?\d+", o.replace("%Z", ""))]
                model = [ints[i] / ints[i + 1] for i in range(0, len(ints) - 1, 2)]
                necond += 1
                if len(model) != len(real) or (real and max(abs(a - b) / max(abs(b), 1e-300) for a, b in zip(real, model)) > 1e-11):
                    viol.append(dict(case, kind="compute_axial_conductances differs from Model/EdgeCond.v (which conductance goes on which edge)", code=real[:40], model=model[:40], no_failing_input_found=True))
        except Exception as ex:
            import traceback
            viol.append({"kind": "edge-conductance correspondence could not be evaluated", "error": repr(ex)[:400], "trace": traceback.format_exc()[-500:], "no_failing_input_found": True})
        import ast
        # Model/AsmIdx.v (about which C01_implicit_step_of_every_cell_total is proved) must produce exactly the edge
        # table, slot remapping, branch-point groups, child_inds and par_inds the code built
        asm_exprs = ["asm_summary " + j[0].split(" ", 1)[1] for j in idx_jobs]
        outs3 = coqeval.coq_eval(["HinesArr", "HinesCheck", "HinesIdx", "AsmStruct", "AsmIdx"], asm_exprs, prelude="Close Scope Q_scope. Open Scope nat_scope.", shard=6)
        for (expr, case, st), o in zip(idx_jobs, outs3):
            ts, (mk, (gr, (ch, pr))) = ast.literal_eval(o.replace("%nat", "").replace(";", ","))
            model_asm = ([tuple(t) for t in ts], list(mk), list(gr), list(ch), list(pr))
            real_asm = ([tuple(e) for e in st["edges"]], st["mask"], st["group"], st["child_inds"], st["par_inds"])
            nasm += 1
            if model_asm != real_asm:
                viol.append(dict(case, kind="the edge table / slot remapping / branch-point groups / child_inds / par_inds built by the code differ from Model/AsmIdx.v (theorem C01_implicit_step_of_every_cell_total is about the model)",
                                 code=repr(real_asm)[:700], model=repr(model_asm)[:700], no_failing_input_found=True))
        outs2 = coqeval.coq_eval(["HinesArr", "HinesCheck", "HinesIdx"], [j[0] for j in idx_jobs], prelude="Close Scope Q_scope. Open Scope nat_scope.", shard=6)
        for (expr, case, st), o in zip(idx_jobs, outs2):
            cum, (plm, lev) = ast.literal_eval(o.replace("%nat", "").replace(";", ","))
            model_idx = (list(cum), list(plm), [([tuple(x) for x in a], [tuple(x) for x in b]) for a, b in lev])
            real_idx = (st["cs"] + [st["cs"][-1] + st["pl"][-1]], st["pl"], [([tuple(x) for x in a], [tuple(x) for x in b]) for a, b in st["levels"]])
            nidx += 1
            if model_idx != real_idx or st["roots"] != [0]:
                viol.append(dict(case, kind="the index structure built by the code differs from Model/HinesIdx.v (theorem C01_checker_accepts_every_cell is about the model)",
                                 code=repr(real_idx)[:600], model=repr(model_idx)[:600], no_failing_input_found=True))
        # networks: forest models against the code
        fmods = ["HinesArr", "HinesCheck", "HinesIdx", "HinesIdxF", "AsmStruct", "AsmIdx", "AsmIdxF", "ForestCells"]
        outs4 = coqeval.coq_eval(fmods, ["idx_summaryF " + " ".join(j[0]) for j in idxf_jobs] + ["asm_summaryF " + " ".join(j[0]) for j in idxf_jobs]
                                 + [f"check_schedule (layout_ofF {j[0][0]} {j[0][1]} {j[0][2]}) (topo_ofF {j[0][0]} {j[0][2]}) (ops_of_forest {j[0][0]} {j[0][1]} {j[0][2]})" for j in idxf_jobs]
                                 + [f"map (node_cell {j[0][0]} {j[0][1]} {j[0][2]}) (seq 0 {j[2]['ncomp'] + len(j[2]['par_inds'])})" for j in idxf_jobs],
                                 prelude="Close Scope Q_scope. Open Scope nat_scope.", shard=6)
        nf = len(idxf_jobs)
        for k, (expr, case, st) in enumerate(idxf_jobs):
            cum, (plm, (lev, roots)) = ast.literal_eval(outs4[k].replace("%nat", "").replace(";", ","))
            model_idx = (list(cum), list(plm), [([tuple(x) for x in a], [tuple(x) for x in b]) for a, b in lev], list(roots))
            real_idx = (st["cs"] + [st["cs"][-1] + st["pl"][-1]], st["pl"], [([tuple(x) for x in a], [tuple(x) for x in b]) for a, b in st["levels"]], st["roots"])
            nidxf += 1
            if model_idx != real_idx:
                viol.append(dict(case, kind="the index structure the code built for the NETWORK (per-cell padding, merged levels, roots) differs from Model/HinesIdxF.v (theorem C01_checker_accepts_every_network is about the model)",
                                 code=repr(real_idx)[:600], model=repr(model_idx)[:600], no_failing_input_found=True))
            ts, (mk, (gr, (ch, pr))) = ast.literal_eval(outs4[nf + k].replace("%nat", "").replace(";", ","))
            model_asm = ([tuple(t) for t in ts], list(mk), list(gr), list(ch), list(pr))
            real_asm = ([tuple(e) for e in st["edges"]], st["mask"], st["group"], st["child_inds"], st["par_inds"])
            if model_asm != real_asm:
                viol.append(dict(case, kind="the edge table / slot remapping / branch-point groups / child_inds / par_inds the code built for the NETWORK differ from Model/AsmIdxF.v (theorem C01_every_network_step_solves_the_cable_graph_equations is about the model)",
                                 code=repr(real_asm)[:700], model=repr(model_asm)[:700], no_failing_input_found=True))
            # the cell of every node (C12_cells_of_every_network_independent): compartments by the code's node table,
            # branch points by the cell of their parent branch
            model_cells = list(ast.literal_eval(outs4[3 * nf + k].replace("%nat", "").replace(";", ",")))
            real_cells = [c_ + 1 for c_ in st["cell_of_comp"]] + [st["cell_of_branch"][p_] + 1 for p_ in st["par_inds"]]
            if model_cells != real_cells:
                viol.append(dict(case, kind="the cell of a compartment / branch point in the code's tables differs from node_cell of Proofs/ForestCells.v (theorem C12_cells_of_every_network_independent is about the model)",
                                 code=real_cells, model=model_cells, no_failing_input_found=True))
            if outs4[2 * nf + k] != "true":
                viol.append(dict(case, kind="check_schedule rejects the forest model of this network (contradicts theorem C01_checker_accepts_every_network: model or build broken)", no_failing_input_found=True))
        nsparse = sparse_system_cases(viol, rng, mods)
    except Exception as ex:
        import traceback
        viol.append({"kind": "array-level correspondence could not be evaluated", "error": repr(ex)[:500], "trace": traceback.format_exc()[-600:], "no_failing_input_found": True})
    try:
        evals += wide_level_cases(viol)
    except Exception as ex:
        import traceback
        viol.append({"kind": "wide-level cases raised", "error": repr(ex)[:300], "trace": traceback.format_exc()[-600:]})
    for v in viol:
        v.setdefault("finding_class", None)
    seen_fc, dedup = set(), []
    for v in viol:
        fc = v.get("finding_class")
        if fc and fc in seen_fc:
            continue
        if fc:
            seen_fc.add(fc)
        dedup.append(v)
    viol = dedup
    return {"evaluations": evals, "distinct_nontrivial": len(distinct),
            "rule": "one voltage step of every enumerated sorted tree (<=4/5 branches) x sampled compartment counts {1,2,3} + random larger trees, heterogeneous dyadic parameters, optional stimulus, dt in {0.025 .. 1e9}, bwd/CN x 3 backends + fwd on cables + networks; each output checked by exact backward error against an independent physical assembly and against Model/Cable.v in exact rationals; distinct by (tree, counts)",
            "samples": samples, "violations": viol[:20], "traces_validated_against_impl": nmodel,
            "cases_with_padded_parent_branch": ncrit, "array_level_modules": narr, "index_structures_compared": nidx, "assembly_index_lists_compared": nasm, "edge_conductance_tables_compared": necond, "network_index_structures_compared": nidxf, "sparse_systems_compared": nsparse}


def replay(ctx, case):
    import numpy as np
    import simlib
    import cablelib
    from fractions import Fraction as Fr
    if "radius" not in case:
        return {"violated": False, "note": "re-run the check with the same VERIF_SEED"}
    spec = cablelib.CellSpec(case["parents"], case["counts"], case["radius"], case["length"], case["axial_resistivity"],
                             case["capacitance"], case["gLeak"], case["eLeak"], case["v"], case["i_nA"])
    cell = simlib.cell_from_spec(spec)
    res = {}
    bad = False
    for vs in BACKENDS:
        try:
            o = simlib.one_step(cell, case["dt"], case["solver"], vs)
            be = spec.backward_error(case["dt"], [Fr(float(x)) for x in o], case["solver"])
            res[vs] = be
            bad = bad or be > 1e-9
        except Exception as ex:
            res[vs] = "refused: " + repr(ex)[:80]
    return {"violated": bad, "backward_error": res}
