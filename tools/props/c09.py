"""C09 — synaptic current flows from the listed pre- to the listed post-compartment."""
import itertools
import math

PROP_FILES = ["Props/C09.v"]
NEEDS_GEN = True
TRUSTED = ["Model/Index.v (per-type arrays, scatter-add) is hand-written and compared with the implementation; the traced synapse functions come from the translator (validated each run)",
           "tools/published.py reference kinetics of the synapses; tools/cablelib.py exact cable reference"]
ASSUMPTIONS = ["the for-all over wirings is proved of the model; the code is tied to it by sampled multisets of (pre, post, type) edges incl. autapses, fan-in, interleaved types and permuted creation orders"]

SYN = ["IonotropicSynapse", "TestSynapse", "TanhRateSynapse"]


def make_net(specs, edges, order=None, zero=False):
    """specs: list of CellSpec; edges: [(pre_comp, post_comp, type, params dict, state)]"""
    import jaxley as jx
    import simlib
    from jaxley.connect import connect
    import jaxley.synapses as S
    with simlib.quiet():
        net = jx.Network([simlib.cell_from_spec(s) for s in specs])
        net.delete_recordings()
        idx = list(range(len(edges))) if order is None else order
        for k in idx:
            pre, post, ty, params, state = edges[k]
            connect(net.select(nodes=[pre]), net.select(nodes=[post]), getattr(S, ty)())
        # parameters are assigned by (pre, post, type, occurrence) so that they follow the synapse
        seen = {}
        for k in idx:
            pre, post, ty, params, state = edges[k]
            e = net.edges
            cand = e.index[(e["pre_global_comp_index"] == pre) & (e["post_global_comp_index"] == post) & (e["type"] == ty)].tolist()
            j = seen.get((pre, post, ty), 0)
            seen[(pre, post, ty)] = j + 1
            row = cand[j]
            for pk, pv in params.items():
                net.select(edges=[row]).set(f"{ty}_{pk}", 0.0 if (zero and pk in ("gS", "gC")) else pv)
            if state is not None:
                net.select(edges=[row]).set(f"{ty}_{'s' if ty == 'IonotropicSynapse' else 'c'}", state)
        net.record("v")
    return net


def reference(specs, edges, dt):
    """exact-ish reference of ONE step: synaptic states first (from the pre voltages), then the
    currents (affine in the post voltage) folded into per-compartment conductance / reversal."""
    import cablelib
    from fractions import Fraction as Fr
    off = [0]
    for s in specs:
        off.append(off[-1] + s.n)
    vall = [float(x) for s in specs for x in s.v]
    addg = [0.0] * off[-1]
    addc = [0.0] * off[-1]
    for pre, post, ty, params, state in edges:
        ci = max(i for i in range(len(specs)) if off[i] <= post)
        sp = specs[ci]
        k = post - off[ci]
        area = 2 * math.pi * float(sp.r[k]) * float(sp.l[k])
        kappa = 1e5 / area
        if ty in ("IonotropicSynapse", "TestSynapse"):
            sinf = 1 / (1 + math.exp((-35 - vall[pre]) / 10))
            kminus = params.get("k_minus", 0.025)
            tau = (1 - sinf) / kminus
            s_new = sinf + (state - sinf) * math.exp(-dt / tau)
            g = params["gS"] if ty == "IonotropicSynapse" else params["gC"]
            esyn = params.get("e_syn", 0.0)
            addg[post] += g * s_new * kappa
            addc[post] += g * s_new * esyn * kappa
        else:
            # a current that depends on the PRE voltage only enters the post compartment's equation as a
            # constant (evaluated at the present pre voltage); it puts no coefficient on the post voltage.
            # (Until F46 this reference mirrored the code's secant, which perturbed the pre voltage too.)
            cur = -params["gS"] * math.tanh((vall[pre] - params["x_offset"]) * params["slope"])
            addc[post] += -cur * kappa
    out = []
    for ci, sp in enumerate(specs):
        g2, e2 = [], []
        for k in range(sp.n):
            G = float(sp.g[k]) * 1000 + addg[off[ci] + k]
            C = float(sp.g[k]) * float(sp.e[k]) * 1000 + addc[off[ci] + k]
            g2.append(Fr(G) / 1000)
            e2.append(Fr(C) / Fr(G))
        s2 = cablelib.CellSpec(sp.parents, sp.counts, sp.r, sp.l, sp.ra, sp.cm, g2, e2, sp.v, sp.i)
        out += [float(x) for x in s2.step(dt, "bwd_euler")]
    return out


def secant_correspondence(ctx, viol, distinct):
    """Network._synapse_currents itself (its accumulated voltage / constant terms per compartment) against
    Model/Secant.v evaluated over Q: random small networks, IonotropicSynapse, TestSynapse and a synapse that
    reads only the pre voltage (rational stand-in for TanhRateSynapse), random dyadic states and voltages."""
    from fractions import Fraction as Fr
    import numpy as np
    import jax.numpy as jnp
    import jaxley as jx
    import coqeval
    from cablelib import q
    from jaxley.connect import connect
    from jaxley.synapses import IonotropicSynapse, TestSynapse
    from jaxley.synapses.synapse import Synapse
    from simlib import quiet
    rng = ctx.rng

    class PreReader(Synapse):
        def __init__(self, name=None):
            super().__init__(name)
            self.synapse_params = {"PreReader_g": 1e-3, "PreReader_x0": -60.0}
            self.synapse_states = {}

        def update_states(self, states, delta_t, pre_voltage, post_voltage, params):
            return {}

        def compute_current(self, states, pre_voltage, post_voltage, params):
            return params["PreReader_g"] * (pre_voltage - params["PreReader_x0"])

    dy = lambda lo, hi, den=8: Fr(rng.randint(int(lo * den), int(hi * den)), den)
    jobs, exprs = [], []
    for _ in range(ctx.budget(4, 25)):
        with quiet():
            cells = [jx.Cell([jx.Branch(jx.Compartment(), rng.randint(1, 3))], parents=[-1]) for _ in range(rng.randint(2, 3))]
            net = jx.Network(cells)
            n = len(net.nodes)
            nsyn = rng.randint(1, 6)
            kinds = []
            for _k in range(nsyn):
                a, b = rng.randrange(n), rng.randrange(n)
                if net.nodes.loc[a, "global_cell_index"] == net.nodes.loc[b, "global_cell_index"] and rng.random() < 0.7:
                    b = (b + 1) % n
                T = rng.choice([IonotropicSynapse, TestSynapse, PreReader])
                connect(net.select(nodes=[a]), net.select(nodes=[b]), T())
                kinds.append((a, b, T.__name__))
            vs = [dy(-80, -40) for _ in range(n)]
            rs = [dy(0.5, 3) for _ in range(n)]
            ls = [dy(5, 30) for _ in range(n)]
            net.set("v", np.asarray([float(x) for x in vs]))
            net.set("radius", np.asarray([float(x) for x in rs]))
            net.set("length", np.asarray([float(x) for x in ls]))
            per_edge = []
            for e in range(len(net.edges)):
                t = net.edges.loc[e, "type"]
                if t == "IonotropicSynapse":
                    pr = {"IonotropicSynapse_gS": dy(0, 2, 1024), "IonotropicSynapse_e_syn": dy(-80, 10), "IonotropicSynapse_s": dy(0, 1, 16)}
                elif t == "TestSynapse":
                    pr = {"TestSynapse_gC": dy(0, 2, 1024), "TestSynapse_c": dy(0, 1, 16)}
                else:
                    pr = {"PreReader_g": dy(0, 2, 1024), "PreReader_x0": dy(-70, -50)}
                for k, val in pr.items():
                    net.edge(e).set(k, float(val))
                per_edge.append((t, pr))
            net.to_jax()
            params = net.get_all_parameters([], voltage_solver="jaxley.stone")
            states = net.get_all_states([], params, 0.025)
            _, (vt, ct) = net._synapse_currents(dict(states), net.synapses, params, 0.025, net.edges)
        d = Fr(1e-3)                                  # the double the code adds, exactly
        syns = []
        for e, (t, pr) in enumerate(per_edge):
            pre = int(net.edges.loc[e, "pre_global_comp_index"])
            post = int(net.edges.loc[e, "post_global_comp_index"])
            conv = Fr(float(1e5 / (2 * np.pi * float(rs[post]) * float(ls[post]))))
            if t == "IonotropicSynapse":
                f = f"(fun vpre vpost : Q => {q(pr['IonotropicSynapse_gS'])} * {q(pr['IonotropicSynapse_s'])} * (vpost - {q(pr['IonotropicSynapse_e_syn'])}))"
            elif t == "TestSynapse":
                f = f"(fun vpre vpost : Q => {q(pr['TestSynapse_gC'])} * {q(pr['TestSynapse_c'])} * vpost)"
            else:
                f = f"(fun vpre vpost : Q => {q(pr['PreReader_g'])} * (vpre - {q(pr['PreReader_x0'])}))"
            syns.append(f"mksyn Q {pre}%nat {post}%nat {f} {q(conv)}")
        vlist = "[" + "; ".join(q(x) for x in vs) + "]"
        exprs.append(f"map (fun c => let r := accumulate Q Qplus Qminus Qmult Qdiv 0 (fun i => nth i {vlist} 0) {q(d)} [{'; '.join(syns)}] c in let a := Qred (fst r) in let b := Qred (snd r) in (Qnum a, Zpos (Qden a), Qnum b, Zpos (Qden b))) (seq 0 {n})")
        jobs.append((kinds, [float(x) for x in np.asarray(vt)], [float(x) for x in np.asarray(ct)], n))
        distinct.add(("secant", tuple(kinds)))
    if not exprs:
        return 0
    import re
    res = coqeval.coq_eval(["Secant"], exprs, prelude="Local Open Scope Q_scope.")
    for (kinds, vt, ct, n), r in zip(jobs, res):
        ints = [int(m.group(0)) for m in re.finditer(r"-?\d+", r.replace("%Z", ""))]
        vals = [Fr(ints[i], ints[i + 1]) for i in range(0, len(ints) - 1, 2)] if len(ints) == 4 * n else []
        if len(vals) != 2 * n:
            viol.append({"kind": "secant model output could not be parsed", "raw": r[:300], "no_failing_input_found": True})
            continue
        mvt, mct = [float(x) for x in vals[0::2]], [float(x) for x in vals[1::2]]
        scale = 1.0 + max(abs(x) for x in mvt + mct)
        if max(abs(a - b) for a, b in zip(vt + ct, mvt + mct)) > 1e-6 * scale:
            viol.append({"kind": "Network._synapse_currents differs from the secant model (Model/Secant.v): the current is not linearised in the post voltage only",
                         "synapses(pre,post,type)": kinds, "code_voltage_terms": vt, "model_voltage_terms": mvt, "code_constant_terms": ct, "model_constant_terms": mct})
    return len(jobs)


def post_geometry_three_ways(ctx, viol):
    """the synaptic current is converted with the membrane area of the POST compartment of the run: giving that
    compartment's radius / length by set(), by data_set (param_state) or as a trainable (params) must give the same
    voltages (the conversion must read the run's parameters, not the module's table)"""
    import numpy as np
    import jax.numpy as jnp
    import jaxley as jx
    from simlib import quiet
    from jaxley.connect import connect
    from jaxley.synapses import IonotropicSynapse, TestSynapse
    from jaxley.channels import Leak
    rng = ctx.rng
    n = 0
    for rep in range(ctx.budget(2, 6)):
        key = ["radius", "length"][rep % 2]
        val = [2.5, 23.0][rep % 2] * rng.choice([0.5, 1.0, 2.0])
        syn_cls = [IonotropicSynapse, TestSynapse][(rep // 2) % 2]
        outs = {}
        for how in ("set", "data_set", "trainable"):
            with quiet():
                comp = jx.Compartment()
                net = jx.Network([jx.Cell([jx.Branch([comp] * 2)], parents=[-1]) for _ in range(2)])
                net.insert(Leak())
                connect(net.cell(0).branch(0).comp(1), net.cell(1).branch(0).comp(0), syn_cls())
                net.cell(0).branch(0).comp(0).stimulate(jnp.asarray([0.2] * 40))
                net.cell(0).set("v", -20.0)                      # presynaptic side active
                net.cell(1).branch(0).comp(0).record("v")
                net.cell(1).branch(0).comp(1).record("v")
                post = net.cell(1).branch(0).comp(0)
                kw = {}
                if how == "set":
                    post.set(key, val)
                elif how == "data_set":
                    kw["param_state"] = post.data_set(key, val, None)
                else:
                    post.make_trainable(key)
                    kw["params"] = [{key: jnp.asarray([val])}]
                outs[how] = np.asarray(jx.integrate(net, delta_t=0.025, **kw))
            n += 1
        ref = outs["set"]
        for how in ("data_set", "trainable"):
            if outs[how].shape != ref.shape or not np.allclose(outs[how], ref, rtol=0, atol=1e-9 * max(1.0, float(np.abs(ref).max()))):
                viol.append({"kind": "the post compartment's geometry given by " + how + " instead of set() changes the voltages (synaptic current converted with another membrane area?)",
                             "key": key, "value": val, "synapse": syn_cls.__name__,
                             "maxdiff": float(np.abs(outs[how] - ref).max()) if outs[how].shape == ref.shape else None, "finding_class": None})
    return n


def run(ctx):
    import numpy as np
    import jaxley as jx
    import simlib
    import coqeval
    from simlib import quiet
    rng = ctx.rng
    viol, samples, distinct = [], [], set()
    evals = 0
    for ci in range(ctx.budget(8, 60)):
        ncells = rng.randint(2, 3)
        same = rng.choice([1, 2])
        specs = [simlib.rand_spec(rng, [-1], [same]) for _ in range(ncells)]     # equal counts: all backends accept
        ncomp = sum(s.n for s in specs)
        ne = rng.randint(3, 5) if ci % 2 == 0 else rng.randint(1, 5)
        # every second network: the rows of some synapse type are NOT contiguous in .edges
        # (e.g. [A, B, A]) and its synapses post onto different compartments
        tys = [rng.choice(SYN) for _ in range(ne)]
        posts = [None] * ne
        if ci % 2 == 0 and ncomp >= 2:
            a, b = rng.sample(SYN, 2)
            tys[:3] = [a, b, a]
            posts[0], posts[2] = rng.sample(range(ncomp), 2)
        edges = []
        for e in range(ne):
            pre = rng.randrange(ncomp)
            post = posts[e] if posts[e] is not None else rng.choice([pre, rng.randrange(ncomp), rng.randrange(ncomp)])   # autapses, fan-in
            ty = tys[e]
            if ty == "IonotropicSynapse":
                params = {"gS": rng.choice([1, 2, 5]) * 1e-4, "e_syn": rng.choice([0.0, -75.0, 10.0]), "k_minus": rng.choice([0.025, 0.1])}
            elif ty == "TestSynapse":
                params = {"gC": rng.choice([1, 3]) * 1e-4}
            else:
                params = {"gS": rng.choice([1, 2]) * 1e-4, "x_offset": rng.choice([-70.0, -60.0]), "slope": rng.choice([1.0, 0.1])}
            state = None if ty == "TanhRateSynapse" else rng.choice([0.1, 0.5, 0.9])
            edges.append((pre, post, ty, params, state))
        dt = 0.025
        vs = rng.choice(["jaxley.thomas", "jaxley.stone", "jax.sparse"])
        case = {"cells": [s.counts for s in specs], "edges": [(a, b, t, p, s) for a, b, t, p, s in edges], "backend": vs,
                "v": [float(x) for s in specs for x in s.v]}
        distinct.add((ncells, same, tuple((a, b, t) for a, b, t, _, _ in edges)))
        try:
            net = make_net(specs, edges)
            out = simlib.one_step(net, dt, "bwd_euler", vs)
            evals += 1
        except Exception as ex:
            import traceback
            viol.append(dict(case, kind="building / simulating the network raised", error=repr(ex)[:300], trace=traceback.format_exc()[-500:]))
            continue
        ref = reference(specs, edges, dt)
        if len(samples) < 2:
            samples.append(dict(case, one_step=[float(x) for x in out]))
        if max(abs(a - b) for a, b in zip(out, ref)) > 1e-8:
            viol.append(dict(case, kind="voltages differ from the reference in which every synapse reads its pre compartment and injects into its post compartment",
                             got=[float(x) for x in out], reference=ref))
        # creation order: any permutation of the connect calls gives the same result
        if ne >= 2:
            perm = list(range(ne))
            rng.shuffle(perm)
            try:
                out2 = simlib.one_step(make_net(specs, edges, order=perm), dt, "bwd_euler", vs)
                evals += 1
                if np.abs(np.asarray(out2) - np.asarray(out)).max() > 1e-10:
                    viol.append(dict(case, kind="result depends on the order in which the synapses were created", order=perm,
                                     maxdiff=float(np.abs(np.asarray(out2) - np.asarray(out)).max())))
            except Exception as ex:
                viol.append(dict(case, kind="permuted creation order raised", order=perm, error=repr(ex)[:300]))
        # zero conductance: exactly as if every cell were simulated alone
        try:
            out0 = simlib.one_step(make_net(specs, edges, zero=True), dt, "bwd_euler", vs)
            alone = [float(x) for s in specs for x in simlib.one_step(simlib.cell_from_spec(s), dt, "bwd_euler", vs)]
            evals += 1 + len(specs)
            if np.abs(np.asarray(out0) - np.asarray(alone)).max() > 1e-10:
                viol.append(dict(case, kind="synapses with zero conductance change the cells",
                                 maxdiff=float(np.abs(np.asarray(out0) - np.asarray(alone)).max())))
        except Exception as ex:
            viol.append(dict(case, kind="zero-conductance network raised", error=repr(ex)[:300]))
        # the tables are what is simulated: per-type parameter arrays follow the selected synapses
        try:
            with quiet():
                net.to_jax()
                ps = net.get_all_parameters([], voltage_solver="jaxley.thomas")
            for ty in set(t for _, _, t, _, _ in edges):
                rows = net.edges.index[net.edges["type"] == ty].tolist()
                for key in net.edges.columns:
                    if key.startswith(ty + "_") and key in ps:
                        tab = [float(net.edges.loc[r, key]) for r in rows]
                        if [float(x) for x in np.asarray(ps[key])] != tab:
                            viol.append(dict(case, kind="parameter array of a synapse type is not the table restricted to that type, in order",
                                             key=key, array=[float(x) for x in np.asarray(ps[key])], table=tab))
        except Exception as ex:
            viol.append(dict(case, kind="get_all_parameters raised", error=repr(ex)[:300]))

    # multi-compartment post cells (area of the POST compartment) on jax.sparse
    for ci in range(ctx.budget(3, 20)):
        specs = []
        for _ in range(2):
            nb = rng.randint(1, 3)
            specs.append(simlib.rand_spec(rng, simlib.rand_parents(rng, nb), [rng.randint(1, 3) for _ in range(nb)]))
        ncomp = sum(s.n for s in specs)
        edges = []
        for e in range(rng.randint(1, 4)):
            pre, post = rng.randrange(ncomp), rng.randrange(ncomp)
            edges.append((pre, post, "IonotropicSynapse", {"gS": 5e-4, "e_syn": 0.0, "k_minus": 0.025}, rng.choice([0.2, 0.8])))
        case = {"cells": [(s.parents, s.counts) for s in specs], "edges": [(a, b, t) for a, b, t, _, _ in edges]}
        try:
            net = make_net(specs, edges)
            out = simlib.one_step(net, 0.025, "bwd_euler", "jax.sparse")
            evals += 1
            ref = reference(specs, edges, 0.025)
            distinct.add(("multi", tuple(tuple(s.counts) for s in specs), tuple((a, b) for a, b, _, _, _ in edges)))
            if max(abs(a - b) for a, b in zip(out, ref)) > 1e-8:
                viol.append(dict(case, kind="voltages differ from the reference (heterogeneous post compartments)",
                                 got=[float(x) for x in out], reference=ref))
        except Exception as ex:
            viol.append(dict(case, kind="heterogeneous network raised", error=repr(ex)[:300]))
    try:
        nsec = secant_correspondence(ctx, viol, distinct)
    except Exception as ex:
        import traceback
        nsec = 0
        viol.append({"kind": "secant correspondence could not be evaluated", "error": repr(ex)[:600], "trace": traceback.format_exc()[-800:], "no_failing_input_found": True})
    evals += nsec
    try:
        import synsel
        evals += synsel.synapse_selection_section(ctx, viol)
    except Exception as ex:
        import traceback
        viol.append({"kind": "synapse selection section raised", "error": repr(ex)[:300], "trace": traceback.format_exc()[-500:]})
    import regress
    try:
        evals += post_geometry_three_ways(ctx, viol)
    except Exception as ex:
        import traceback
        viol.append({"kind": "post-geometry cases raised", "error": repr(ex)[:300], "trace": traceback.format_exc()[-600:]})
    evals += regress.run("C09", viol)
    for v in viol:
        v.setdefault("finding_class", None)
    return {"evaluations": evals, "distinct_nontrivial": len(distinct),
            "rule": "random multisets of (pre, post, type) edges over 3 synapse types incl. autapses, fan-in, interleaved types, per-edge parameters/states; one step on a random backend compared with a reference built from the published synapse kinetics folded into the exact cable reference; permuted creation order; zero conductances vs cells alone; per-type parameter arrays vs the edge table; heterogeneous post compartments; distinct by wiring",
            "samples": samples, "violations": viol[:20]}


def replay(ctx, case):
    return {"violated": False, "note": "re-run the check with the same VERIF_SEED"}
