"""C15 — simulations converge to cable theory at the expected order (partial)."""
import math

PROP_FILES = ["Props/C15.v"]
NEEDS_GEN = True
TRUSTED = ["analytic cable theory formulas in this file (sealed uniform cable: R_in(x0) = R_inf cosh(x0/lambda) cosh((L-x0)/lambda) / sinh(L/lambda))",
           "Interval tactic (PrimFloat/Uint63 axioms) for the Crank-Nicolson local error bound"]
ASSUMPTIONS = ["partial: units and temporal orders are theorems about the scalar scheme (C01 proves that the code computes the scheme); the spatial order is measured on refinement ladders, a limit statement that a run cannot prove"]


def stability_cases(viol, rng, n_modules):
    """the conclusions of C15_implicit_step_does_not_amplify and of the one-step error bound, evaluated on the code:
    one implicit step of every jaxley backend on random cells / networks with random positive conductances,
    vt >= 0 and dt up to 16: max |out| <= max |v + dt ct|, and two data sets differing by (dv, dct) give outputs
    differing by at most max|dv| + dt max|dct|."""
    import numpy as np
    import jaxley as jx
    import simlib
    import hineslib
    from fractions import Fraction as Fr
    comp = jx.Compartment()
    n = 0
    for k in range(n_modules):
        with simlib.quiet():
            if k % 3 == 2:
                cells = []
                for _ in range(rng.randint(2, 3)):
                    nb = rng.randint(1, 4)
                    cells.append((simlib.rand_parents(rng, nb) if nb > 1 else [-1], [2] * nb))
                m = jx.Network([jx.Cell([jx.Branch([comp] * c) for c in cs], parents=q) for q, cs in cells])
                case = {"network_of": cells}
            else:
                nb = rng.randint(1, 6)
                parents = simlib.rand_parents(rng, nb) if nb > 1 else [-1]
                counts = [rng.randint(1, 4) for _ in range(nb)]
                m = jx.Cell([jx.Branch([comp] * c) for c in counts], parents=parents)
                case = {"parents": parents, "counts": counts}
        st = hineslib.structure(m)
        g, v0, vt, ct, dtq = hineslib.random_values(rng, st)
        v1 = [a + Fr(rng.randint(-40, 40), 8) for a in v0]
        ct1 = [a + Fr(rng.randint(-40, 40), 8) for a in ct]
        for sv in ("jaxley.thomas", "jaxley.stone"):
            try:
                o0 = hineslib.run_real(m, st, g, v0, vt, ct, dtq, sv)
                o1 = hineslib.run_real(m, st, g, v1, vt, ct1, dtq, sv)
            except (AssertionError, NotImplementedError, ValueError):
                continue
            n += 1
            K = max(abs(float(a + dtq * b)) for a, b in zip(v0, ct))
            if max(abs(x) for x in o0) > K * (1 + 1e-9) + 1e-9:
                viol.append(dict(case, kind="the implicit step amplifies in the maximum norm (max |out| > max |v + dt ct| with vt >= 0)", solver=sv,
                                 bound=K, got=max(abs(x) for x in o0), dt=float(dtq)))
            E = max(abs(float(a - b)) for a, b in zip(v0, v1)) + float(dtq) * max(abs(float(a - b)) for a, b in zip(ct, ct1))
            d = max(abs(a - b) for a, b in zip(o0, o1))
            if d > E * (1 + 1e-9) + 1e-9:
                viol.append(dict(case, kind="two inputs closer than E give outputs further apart than E (one-step error bound max|dv| + dt max|dct|)", solver=sv,
                                 bound=E, got=d, dt=float(dtq)))
    return n


def run(ctx):
    import numpy as np
    import jax.numpy as jnp
    import jaxley as jx
    import simlib
    from simlib import quiet
    from jaxley.channels import Leak
    rng = ctx.rng
    viol, samples, distinct = [], [], set()
    evals = 0

    # ---- A. single compartment: units, RC relaxation, temporal orders
    for ci in range(ctx.budget(3, 12)):
        r = simlib.dy(rng, 1, 10)
        l = simlib.dy(rng, 10, 50)
        g = rng.choice([1e-4, 3e-4, 1e-3])
        E = simlib.dy(rng, -80, -60, 4)
        cm = rng.choice([1.0, 2.0])
        I = rng.choice([0.01, 0.05, -0.02])
        v0 = E + rng.choice([-10.0, 5.0])
        tau = cm / (1000 * g)
        vinf = E + 100 * I / (g * 2 * math.pi * r * l)
        T = 0.5 * tau if tau < 20 else 5.0
        case = {"radius": r, "length": l, "gLeak": g, "eLeak": E, "capacitance": cm, "I_nA": I, "v0": v0, "tau_ms": tau, "v_inf_mV": vinf}
        distinct.add(("rc", r, l, g, cm, I))
        try:
            errs = {"bwd_euler": [], "crank_nicolson": []}
            for solver in errs:
                for k in range(3):
                    nsteps = 8 * 2 ** k
                    dt = T / nsteps
                    with quiet():
                        c = jx.Compartment()
                        c.insert(Leak())
                        c.set("radius", r); c.set("length", l); c.set("Leak_gLeak", g); c.set("Leak_eLeak", E)
                        c.set("capacitance", cm); c.set("v", v0)
                        c.stimulate(jnp.asarray([I] * nsteps))
                        c.record("v")
                        out = np.asarray(jx.integrate(c, delta_t=dt, solver=solver, voltage_solver=rng.choice(["jaxley.thomas", "jax.sparse"])))
                    evals += 1
                    exact = vinf + (v0 - vinf) * math.exp(-T / tau)
                    errs[solver].append(abs(out[0, -1] - exact))
                    # the scheme itself: amplification 1/(1+x) resp. (1-x/2)/(1+x/2) per step, exactly
                    x = dt / tau
                    amp = 1 / (1 + x) if solver == "bwd_euler" else (1 - x / 2) / (1 + x / 2)
                    pred = vinf + (v0 - vinf) * amp ** nsteps
                    if abs(out[0, -1] - pred) > 1e-9 * max(1.0, abs(pred)):
                        viol.append(dict(case, kind="single compartment does not follow the scheme's closed form (units or scheme wrong)",
                                         solver=solver, dt=dt, got=float(out[0, -1]), predicted=pred))
            for solver, want in (("bwd_euler", 1.0), ("crank_nicolson", 2.0)):
                e = errs[solver]
                if e[2] > 1e-11 and e[1] > 1e-11:
                    p1, p2 = math.log2(e[0] / e[1]), math.log2(e[1] / e[2])
                    case_o = dict(case, solver=solver, errors=e, observed_orders=[p1, p2])
                    if len(samples) < 3:
                        samples.append(case_o)
                    if not (want - 0.35 <= p2 <= want + 0.45):
                        viol.append(dict(case_o, kind=f"temporal convergence order is not {want:g}"))
            # steady state under constant current
            with quiet():
                c = jx.Compartment(); c.insert(Leak())
                c.set("radius", r); c.set("length", l); c.set("Leak_gLeak", g); c.set("Leak_eLeak", E); c.set("capacitance", cm); c.set("v", v0)
                c.stimulate(jnp.asarray([I] * 6)); c.record("v")
                out = np.asarray(jx.integrate(c, delta_t=1e7))
            evals += 1
            if abs(out[0, -1] - vinf) > 1e-6 * max(1.0, abs(vinf)):
                viol.append(dict(case, kind="steady-state voltage under constant current is not E + 100 I / (g 2 pi r l)", got=float(out[0, -1])))
        except Exception as ex:
            import traceback
            viol.append(dict(case, kind="single-compartment simulation raised", error=repr(ex)[:300], trace=traceback.format_exc()[-400:]))

    # ---- B. uniform sealed cable: steady-state input / transfer resistance, second order in h
    for ci in range(ctx.budget(2, 8)):
        r = rng.choice([0.5, 1.0, 2.0])
        L = rng.choice([400.0, 800.0])
        ra = rng.choice([100.0, 200.0])
        g = rng.choice([1e-4, 5e-4])
        E = -70.0
        I = 0.1
        ri = ra / (math.pi * (r * 1e-4) ** 2)              # ohm / cm
        rm = 1.0 / (g * 2 * math.pi * r * 1e-4)            # ohm cm
        lam = math.sqrt(rm / ri)                           # cm
        Rinf = math.sqrt(rm * ri)                          # ohm
        Lc = L * 1e-4
        case = {"radius": r, "L_um": L, "axial_resistivity": ra, "gLeak": g, "lambda_um": lam * 1e4, "L_over_lambda": Lc / lam}
        distinct.add(("cable", r, L, ra, g))
        try:
            errs, errs_tr = [], []
            # the same cable as ONE branch or cut into branches of unequal length with unequal
            # compartment lengths at the branch points (every second case)
            pieces = [(1.0, 4)] if ci % 2 == 0 else rng.choice([[(0.5, 2), (1 / 6, 1), (1 / 3, 2)], [(0.75, 2), (0.25, 2)], [(0.25, 2), (0.5, 1), (0.25, 3)]])
            case["pieces_fraction_ncomp"] = pieces
            for k in range(3):
                with quiet():
                    comp = jx.Compartment()
                    if len(pieces) == 1:
                        n = 4 * 2 ** k
                        br = jx.Branch([comp] * n)
                        br.set("length", L / n)
                        l_first = l_last = L / n
                    else:
                        ns = [m * 2 ** k for _, m in pieces]
                        br = jx.Cell([jx.Branch([comp] * m) for m in ns], parents=list(range(-1, len(pieces) - 1)))
                        for bi, ((frac, _), m) in enumerate(zip(pieces, ns)):
                            br.branch(bi).set("length", L * frac / m)
                        n = sum(ns)
                        l_first, l_last = L * pieces[0][0] / ns[0], L * pieces[-1][0] / ns[-1]
                    br.insert(Leak())
                    br.set("radius", r); br.set("axial_resistivity", ra)
                    br.set("Leak_gLeak", g); br.set("Leak_eLeak", E); br.set("v", E)
                    br.select(nodes=[0]).stimulate(jnp.asarray([I] * 4))
                    br.record("v")
                    out = np.asarray(jx.integrate(br, delta_t=1e8, voltage_solver=rng.choice(["jaxley.thomas", "jaxley.stone", "jax.sparse"])))
                evals += 1
                x0 = (l_first / 2) * 1e-4
                xe = Lc - (l_last / 2) * 1e-4
                Rin = Rinf * math.cosh(x0 / lam) * math.cosh((Lc - x0) / lam) / math.sinh(Lc / lam) * 1e-6      # MOhm
                Rtr = Rinf * math.cosh(x0 / lam) * math.cosh((Lc - xe) / lam) / math.sinh(Lc / lam) * 1e-6
                got_in = (out[0, -1] - E) / I
                got_tr = (out[n - 1, -1] - E) / I
                errs.append(abs(got_in - Rin) / Rin)
                errs_tr.append(abs(got_tr - Rtr) / Rtr)
            case_o = dict(case, input_resistance_rel_errors=errs, transfer_resistance_rel_errors=errs_tr)
            if len(samples) < 5:
                samples.append(case_o)
            if errs[0] > 0.2:
                viol.append(dict(case_o, kind="input resistance of a uniform sealed cable is far from cable theory (units?)"))
            for name, e in (("input", errs), ("transfer", errs_tr)):
                if e[1] > 1e-9 and e[2] > 1e-9:
                    p = math.log2(e[1] / e[2])
                    if not (1.6 <= p <= 2.4):
                        viol.append(dict(case_o, kind=f"{name} resistance does not converge at second order in the compartment length", observed_order=p))
        except Exception as ex:
            import traceback
            viol.append(dict(case, kind="cable simulation raised", error=repr(ex)[:300], trace=traceback.format_exc()[-400:]))
    try:
        evals += stability_cases(viol, rng, ctx.budget(9, 60))
    except Exception as ex:
        import traceback
        viol.append({"kind": "stability cases raised", "error": repr(ex)[:300], "trace": traceback.format_exc()[-500:]})
    for v in viol:
        v.setdefault("finding_class", None)
    return {"evaluations": evals, "distinct_nontrivial": len(distinct),
            "rule": "A: single passive compartments with random geometry / g / cm / I: final voltage against the scheme's closed form (exact to round-off) and against the analytic RC relaxation on dt ladders (observed orders), steady state with dt=1e7; B: uniform sealed cables (L = 0.3..3 lambda), as one branch with ncomp = 4, 8, 16 or cut into 2-3 branches of unequal length and unequal compartment length, refined by 2 and 4: steady-state input and transfer resistance against cable theory in physical units, observed spatial order; distinct by parameter set",
            "samples": samples, "violations": viol[:20]}


def replay(ctx, case):
    return {"violated": False, "note": "re-run the check with the same VERIF_SEED"}
