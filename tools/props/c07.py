"""C07 — simulations compose in time."""
import math

PROP_FILES = ["Props/C07.v"]
NEEDS_GEN = False
TRUSTED = ["Model/Scan.v mirrors the time loop of integrate by hand; tied to the code by the direct predicate below"]
ASSUMPTIONS = ["the theorems are about an abstract step function; that Module.step is a function of (state, externals of that step) only is what the manual-stepping comparison tests"]


def run(ctx):
    import numpy as np
    import jax
    import jax.numpy as jnp
    import jaxley as jx
    from jaxley.integrate import build_init_and_step_fn
    import simlib
    from simlib import quiet
    from jaxley.channels import HH
    rng = ctx.rng
    viol, samples, distinct = [], [], set()
    evals = 0
    for ci in range(ctx.budget(5, 40)):
        nb = rng.randint(1, 4)
        parents = simlib.rand_parents(rng, nb)
        counts = [rng.randint(1, 3) for _ in range(nb)]
        cell = simlib.build_cell(rng, parents, counts)
        use_hh = rng.random() < 0.5
        with quiet():
            if use_hh:
                cell.insert(HH())
            else:
                simlib.insert_leak(cell, rng)
        n = sum(counts)
        nsteps = rng.randint(3, 8)
        stim_row = rng.randrange(n)
        stim = np.asarray([simlib.dy(rng, -1, 1, 16) for _ in range(nsteps)])
        vs = rng.choice(["jaxley.thomas", "jaxley.stone", "jax.sparse"])
        solver = rng.choice(["bwd_euler", "crank_nicolson"])
        kw = dict(delta_t=0.025, voltage_solver=vs, solver=solver)
        case = {"parents": parents, "counts": counts, "hh": use_hh, "nsteps": nsteps, "stim_row": stim_row,
                "stimulus": stim.tolist(), "voltage_solver": vs, "solver": solver}
        with quiet():
            cell.record("v")
            if use_hh:
                cell.record("HH_m")
                cell.select(nodes=[0]).record("i_HH")

        def sim(cur, **extra):
            with quiet():
                cell.delete_stimuli()
                cell.select(nodes=[stim_row]).stimulate(jnp.asarray(cur))
                return jx.integrate(cell, **kw, **extra)
        try:
            full, full_state = sim(stim, return_states=True)
            full = np.asarray(full)
            evals += 1
            scale = max(1.0, float(np.abs(full).max()))
            tol = 1e-9 * scale
            if len(samples) < 2:
                samples.append(dict(case, last_column=full[:, -1].tolist()[:4]))
            rec_states = cell.recordings.state.to_numpy()
            rec_inds = cell.recordings.rec_index.to_numpy()

            def last_col_of(states):
                return np.asarray([float(states[s][i]) for s, i in zip(rec_states, rec_inds) if s in states])
            keep = [k for k, s in enumerate(rec_states) if s in full_state]
            # returned state = state at the last returned time point (no checkpointing)
            if not np.allclose(last_col_of(full_state), full[keep, -1], rtol=0, atol=tol):
                viol.append(dict(case, kind="returned states differ from the last returned column (no checkpointing)"))
            # all splits (n1, n2), n1, n2 >= 1
            splits = [(a, nsteps - a) for a in range(1, nsteps)]
            if len(splits) > ctx.budget(3, 7):
                splits = rng.sample(splits, ctx.budget(3, 7))
            for (n1, n2) in splits:
                r1, st = sim(stim[:n1], return_states=True)
                r2, st2 = sim(stim[n1:], all_states=st, return_states=True)
                r1, r2 = np.asarray(r1), np.asarray(r2)
                evals += 2
                distinct.add((tuple(parents), tuple(counts), nsteps, n1))
                glued = np.concatenate([r1, r2[:, 1:]], axis=1)
                if glued.shape != full.shape or not np.allclose(glued, full, rtol=0, atol=tol):
                    viol.append(dict(case, kind="continuing from returned states differs from one call", split=[n1, n2],
                                     maxdiff=float(np.abs(glued - full).max()) if glued.shape == full.shape else None))
                if not np.allclose(r2[:, 0], r1[:, -1], rtol=0, atol=tol):
                    viol.append(dict(case, kind="all_states did not override the initial state", split=[n1, n2]))
                for k in st2:
                    if not np.allclose(np.asarray(st2[k]), np.asarray(full_state[k]), rtol=0, atol=tol, equal_nan=True):
                        viol.append(dict(case, kind="final states after splitting differ", split=[n1, n2], key=k))
                        break
            # repeated splitting into three parts
            if nsteps >= 3:
                a = rng.randint(1, nsteps - 2)
                b = rng.randint(a + 1, nsteps - 1)
                r1, st = sim(stim[:a], return_states=True)
                r2, st = sim(stim[a:b], all_states=st, return_states=True)
                r3 = sim(stim[b:], all_states=st)
                evals += 3
                glued = np.concatenate([np.asarray(r1), np.asarray(r2)[:, 1:], np.asarray(r3)[:, 1:]], axis=1)
                if glued.shape != full.shape or not np.allclose(glued, full, rtol=0, atol=tol):
                    viol.append(dict(case, kind="three-way split differs from one call", cuts=[a, b]))
            # manual stepping
            with quiet():
                cell.delete_stimuli()
                cell.select(nodes=[stim_row]).stimulate(jnp.asarray(stim))
                init_fn, step_fn = build_init_and_step_fn(cell, voltage_solver=vs, solver=solver)
                states, params = init_fn(cell.get_parameters(), None, None, 0.025)
                cols = [[float(states[s][i]) if s in states else float("nan") for s, i in zip(rec_states, rec_inds)]]
                for k in range(nsteps):
                    ext = {key: val[:, k] for key, val in cell.externals.items()}
                    states = step_fn(states, params, ext, delta_t=0.025)
                    cols.append([float(states[s][i]) for s, i in zip(rec_states, rec_inds)])
            evals += 1
            manual = np.asarray(cols).T
            if not np.allclose(manual[keep], full[keep], rtol=0, atol=tol) or not np.allclose(manual[:, 1:], full[:, 1:], rtol=0, atol=tol):
                viol.append(dict(case, kind="manual stepping with init_fn/step_fn differs from integrate",
                                 maxdiff=float(np.nanmax(np.abs(manual[:, 1:] - full[:, 1:])))))
            # returned states under checkpointing: exact product, then padded product (known finding F6)
            for cl in [c for c in simlib.factorizations(nsteps, 3, slack=3)][: ctx.budget(4, 12)]:
                r, st = sim(stim, checkpoint_lengths=cl, return_states=True)
                evals += 1
                r = np.asarray(r)
                if not np.allclose(r, full, rtol=0, atol=tol):
                    viol.append(dict(case, kind="recordings differ under checkpoint_lengths", checkpoint_lengths=cl))
                if not np.allclose(last_col_of(st), r[keep, -1], rtol=0, atol=tol):
                    padded = math.prod(cl) > nsteps
                    viol.append(dict(case, kind="returned states are not the state at the last returned time point",
                                     checkpoint_lengths=cl, prod=math.prod(cl),
                                     finding_class="return_states_with_checkpoint_padding" if padded else None))
        except Exception as ex:
            import traceback
            viol.append(dict(case, kind="integrate/step raised", error=repr(ex)[:300], trace=traceback.format_exc()[-600:]))
    # initial STATES given by trainables / data_set, with a continuation: the states passed in `all_states` are the state of
    # the simulation; the trainable / data_set values are initial conditions of the FIRST call only
    try:
        for rep in range(ctx.budget(2, 6)):
            with quiet():
                cellT = simlib.build_cell(rng, [-1, 0], [2, 1])
                cellT.insert(HH())
                cellT.record("v")
                cellT.record("HH_m")
                cellT.record("HH_h")
                cellT.select(nodes=[1]).make_trainable("HH_m")
                cellT.select(nodes=[0, 2]).make_trainable("HH_n")
                params = cellT.get_parameters()
            params = [{k: jnp.asarray(np.asarray(v) * 0 + (0.6 if k == "HH_m" else 0.45)) for k, v in p.items()} for p in params]
            nst = rng.randint(4, 7)
            cur = jnp.asarray([simlib.dy(rng, 0, 1, 16) for _ in range(nst)])
            vs_ = rng.choice(["jaxley.thomas", "jaxley.stone", "jax.sparse"])
            caseT = {"cell": "[-1,0] x [2,1] with HH", "trainable_states": {"HH_m": [1], "HH_n": [0, 2]}, "data_set": {"HH_h": [2]}, "nsteps": nst, "voltage_solver": vs_}

            def simT(c_, **extra):
                with quiet():
                    cellT.delete_stimuli()
                    pst = cellT.select(nodes=[2]).data_set("HH_h", 0.25, None)
                    cellT.select(nodes=[0]).stimulate(c_)
                    return jx.integrate(cellT, params=params, param_state=pst, delta_t=0.025, voltage_solver=vs_, **extra)
            fullT = np.asarray(simT(cur))
            evals += 1
            for n1 in sorted(set([1, nst // 2, nst - 1])):
                r1, st = simT(cur[:n1], return_states=True)
                r2 = simT(cur[n1:], all_states=st)
                evals += 2
                glued = np.concatenate([np.asarray(r1), np.asarray(r2)[:, 1:]], axis=1)
                if glued.shape != fullT.shape or not np.allclose(glued, fullT, rtol=0, atol=1e-9 * max(1.0, float(np.abs(fullT).max()))):
                    viol.append(dict(caseT, kind="continuing from returned states differs from one call when initial states are trainable / set by data_set (they were applied again on top of all_states?)",
                                     split=[n1, nst - n1], maxdiff=float(np.abs(glued - fullT).max()) if glued.shape == fullT.shape else None))
                    break
    except Exception as ex:
        import traceback
        viol.append({"kind": "continuation with trainable states raised", "error": repr(ex)[:300], "trace": traceback.format_exc()[-600:]})
    import regress
    evals += regress.run("C07", viol)
    for v in viol:
        v.setdefault("finding_class", None)
    out, seen = [], set()
    for v in viol:
        fc = v.get("finding_class")
        if fc and fc in seen:
            continue
        if fc:
            seen.add(fc)
        out.append(v)
    return {"evaluations": evals, "distinct_nontrivial": len(distinct),
            "rule": "random branched cells (Leak or HH) with a stimulus, (solver, backend) sampled: every split (n1,n2), a three-way split, manual stepping with build_init_and_step_fn, and return_states under exact and padded checkpoint layouts; distinct by (cell, steps, split)",
            "samples": samples, "violations": out[:20]}


def replay(ctx, case):
    return {"violated": False, "note": "re-run the check with the same VERIF_SEED"}
