"""C05 — gradients obtained by differentiating through a simulation are correct (partial)."""
import math

PROP_FILES = ["Props/C05.v"]
NEEDS_GEN = True
TRUSTED = ["JAX's automatic differentiation of every primitive and of their composition, jax.checkpoint (NOT proved: the end-to-end claim rests on the comparison with finite differences below)",
           "tools/jaxpr2coq.py (translator, validated each run) for the traced building blocks"]
ASSUMPTIONS = ["partial: Coq proves differentiability / derivative formulas of building blocks, gradient-safety of the singularity guards, exact selection of trainables and that checkpointing does not change the function; jax.grad of the whole simulation is compared with converged central finite differences in float64 on sampled models"]


def stone_gradient_case(viol):
    """known finding F64 in reverse mode: with voltage_solver='jaxley.stone' a branch with somewhat more compartments
    than a power of two gives a finite loss (equal to the other backends') but a NaN gradient; jaxley.thomas must give
    a finite gradient that agrees with central finite differences"""
    import jax
    import jax.numpy as jnp
    import numpy as np
    import jaxley as jx
    from jaxley.channels import HH
    from simlib import quiet
    dt, t_max = 0.025, 1.0
    with quiet():
        br = jx.Branch(jx.Compartment(), ncomp=136)
        br.insert(HH())
        br.set("axial_resistivity", 35.4)
        br.comp(0).stimulate(jx.step_current(0.2, 0.6, 0.05, dt, t_max), verbose=False)
        br.comp(0).record(verbose=False)
        br.comp(135).record(verbose=False)
        br.make_trainable("radius", verbose=False)
    params = br.get_parameters()
    out = {}
    for vs in ("jaxley.thomas", "jaxley.stone"):
        def loss(p, vs=vs):
            return jnp.mean(jx.integrate(br, params=p, delta_t=dt, voltage_solver=vs) ** 2)
        with quiet():
            val, g = jax.value_and_grad(loss)(params)
        out[vs] = (float(val), float(np.asarray(g[0]["radius"]).ravel()[0]))
    h = 1e-5
    with quiet():
        lp = float(jnp.mean(jx.integrate(br, params=[{"radius": params[0]["radius"] + h}], delta_t=dt, voltage_solver="jaxley.thomas") ** 2))
        lm = float(jnp.mean(jx.integrate(br, params=[{"radius": params[0]["radius"] - h}], delta_t=dt, voltage_solver="jaxley.thomas") ** 2))
    fd = (lp - lm) / (2 * h)
    gt = out["jaxley.thomas"][1]
    if not np.isfinite(gt) or abs(gt - fd) > 1e-4 * max(1.0, abs(fd)):
        viol.append({"kind": "gradient through jaxley.thomas differs from finite differences on a long branch", "gradient": gt, "finite_difference": fd, "finding_class": None})
    gs = out["jaxley.stone"][1]
    if not np.isfinite(gs) or abs(gs - fd) > 1e-4 * max(1.0, abs(fd)):
        viol.append({"kind": "gradient through jaxley.stone is NaN / wrong on a branch of 136 compartments while the loss is finite", "loss_stone": out["jaxley.stone"][0],
                     "loss_thomas": out["jaxley.thomas"][0], "gradient_stone": gs, "gradient_thomas": gt, "finite_difference": fd,
                     "finding_class": "stone_recursive_doubling_underflow"})
    return 2


def guard_gradient_cases(viol):
    """jax.grad of every rate function that contains a removable singularity, AT the singular voltage (inside the
    guard), against central finite differences taken with a step far outside the guard: the guard must carry the
    derivative of the function it replaces (theorem C05_guards_have_the_right_derivative), not only its value."""
    import jax
    import jax.numpy as jnp
    from jaxley.channels import HH
    from jaxley.channels import pospischil as pp
    from jaxley.channels.hh import _vtrap
    n = 0
    fns = [("pospischil.efun", lambda x: pp.efun(x), [0.0, 3e-7, -7e-7]),
           ("hh._vtrap(x, 10)", lambda x: _vtrap(x, 10.0), [0.0, 4e-6, -8e-6]),
           ("HH.m_gate alpha", lambda v: HH.m_gate(v)[0], [-40.0, -40.0 + 2e-6]),
           ("HH.n_gate alpha", lambda v: HH.n_gate(v)[0], [-55.0, -55.0 - 3e-6])]
    for vt in (-60.0, -63.0, -48.5):
        fns += [(f"Na.m_gate alpha (vt={vt})", lambda v, vt=vt: pp.Na.m_gate(v, vt)[0], [vt + 13.0, vt + 13.0 + 1e-6]),
                (f"Na.m_gate beta (vt={vt})", lambda v, vt=vt: pp.Na.m_gate(v, vt)[1], [vt + 40.0, vt + 40.0 - 2e-6]),
                (f"K.n_gate alpha (vt={vt})", lambda v, vt=vt: pp.K.n_gate(v, vt)[0], [vt + 15.0, vt + 15.0 + 2e-6])]
    fns += [("CaL.q_gate alpha", lambda v: pp.CaL.q_gate(v)[0], [-27.0, -27.0 + 1e-6])]
    for name, f, points in fns:
        for x0 in points:
            n += 1
            g = float(jax.grad(lambda x: f(x))(jnp.asarray(x0, dtype=jnp.float64)))
            h = 1e-2
            fd = float((f(jnp.asarray(x0 + h)) - f(jnp.asarray(x0 - h))) / (2 * h))      # O(h^2) ~ 1e-5 relative
            if not (abs(g - fd) <= 1e-3 * max(abs(fd), 1e-3)):
                viol.append({"kind": "jax.grad of a rate function at its removable singularity differs from the derivative of the function (central differences taken outside the guard)",
                             "function": name, "at": x0, "jax_grad": g, "finite_difference": fd, "finding_class": None})
    return n


def run(ctx):
    import numpy as np
    import jax
    import jax.numpy as jnp
    import jaxley as jx
    import simlib
    from simlib import quiet
    from jaxley.channels import HH, Leak
    from jaxley.connect import connect
    from jaxley.synapses import IonotropicSynapse, TestSynapse
    rng = ctx.rng
    viol, samples, distinct = [], [], set()
    evals = 0

    def fd_check(loss, params, case, nprobe=3):
        """jax.grad(loss)(params) against central finite differences on random entries."""
        nonlocal evals
        g = jax.grad(loss)(params)
        flat, tree = jax.tree_util.tree_flatten(params)
        gflat = jax.tree_util.tree_leaves(g)
        if any(not np.all(np.isfinite(np.asarray(x))) for x in gflat):
            viol.append(dict(case, kind="gradient is not finite", grad=[np.asarray(x).tolist() for x in gflat]))
            return g
        idx = [(a, k) for a, x in enumerate(flat) for k in range(np.asarray(x).size)]
        for (a, k) in rng.sample(idx, min(nprobe, len(idx))):
            x0 = float(np.asarray(flat[a]).reshape(-1)[k])
            best = None
            for rel in (1e-4, 1e-5, 1e-6):
                h = rel * max(abs(x0), 1e-3)

                def at(v):
                    f2 = [np.asarray(x, dtype=float).copy() for x in flat]
                    f2[a].reshape(-1)[k] = v
                    return float(loss(jax.tree_util.tree_unflatten(tree, [jnp.asarray(x) for x in f2])))
                fd = (at(x0 + h) - at(x0 - h)) / (2 * h)
                ad = float(np.asarray(gflat[a]).reshape(-1)[k])
                err = abs(fd - ad) / max(abs(fd), abs(ad), 1e-12)
                best = err if best is None else min(best, err)
                evals += 2
                if err < 1e-5:
                    break
            if best > 2e-4 and abs(fd - ad) > 1e-10:
                viol.append(dict(case, kind="jax.grad differs from central finite differences", leaf=a, entry=k, value=x0,
                                 autodiff=ad, finite_difference=fd, rel_err=best))
        return g

    nmodels = ctx.budget(5, 30)
    for mi in range(nmodels):
        nb = rng.randint(1, 3)
        parents = simlib.rand_parents(rng, nb)
        counts = [rng.randint(1, 3) for _ in range(nb)] if mi != 0 else ([2, 3, 2][:nb] if nb == 3 else [2, 3][:nb])
        if mi == 0:
            parents, counts = [-1, 0, 0], [2, 3, 2]
            nb = 3
        try:
            cell = simlib.build_cell(rng, parents, counts)
            use_hh = mi % 2 == 0
            with quiet():
                if use_hh:
                    cell.insert(HH())
                    # a compartment sitting exactly on a singular voltage of a rate function
                    cell.select(nodes=[0]).set("v", -40.0)
                else:
                    simlib.insert_leak(cell, rng)
                n = sum(counts)
                nst = rng.randint(3, 5)
                cell.select(nodes=[rng.randrange(n)]).stimulate(jnp.asarray([simlib.dy(rng, 0, 1, 16) for _ in range(nst)]))
                cell.record("v")
                if use_hh:
                    cell.select(nodes=[n - 1]).record("HH_m")
                keys = ["radius", "length", "axial_resistivity", "capacitance", "v"] + (["HH_gNa", "HH_eK", "HH_m", "HH_n"] if use_hh else ["Leak_gLeak", "Leak_eLeak"])
                chosen = rng.sample(keys, 3)
                if use_hh:
                    # the initial voltage of the compartment that sits on the singular voltage is
                    # differentiated: the cotangent passes through BOTH branches of the guard
                    cell.select(nodes=[0]).make_trainable("v")
                    chosen = [k for k in chosen if k != "v"]
                    if nb >= 2 and len(set(counts)) > 1:
                        # an initial STATE shared per branch over branches of unequal size (the smaller
                        # groups are padded by repeating an index: every cotangent must count once)
                        b_small = min(range(nb), key=lambda b: counts[b])
                        b_big = max(range(nb), key=lambda b: counts[b])
                        cell.branch(sorted([b_small, b_big])).make_trainable("HH_n")
                        chosen = [k for k in chosen if k != "HH_n"]
                forced = {}
                if mi == 0:
                    # always: one PARAMETER shared per branch over branches of unequal size (2 vs 3 compartments): the
                    # index matrix of the smaller group is padded with a repeated index, and its cotangent must count once
                    pk = "HH_gNa" if use_hh else "Leak_gLeak"
                    chosen = ["radius", pk] + [k for k in chosen if k not in ("radius", pk)][:1]
                    forced = {"radius": [0, 1], pk: [1, 2]}
                for key in chosen:
                    how = rng.choice(["all", "branches", "comp"])
                    if key in forced:
                        cell.branch(forced[key]).make_trainable(key)
                    elif how == "all":
                        cell.make_trainable(key)
                    elif how == "branches" and nb >= 2:
                        cell.branch(sorted(rng.sample(range(nb), 2))).make_trainable(key)      # shared, unequal groups
                    else:
                        cell.select(nodes=[rng.randrange(n)]).make_trainable(key)
            params = cell.get_parameters()
            solver = rng.choice(["bwd_euler", "crank_nicolson"])
            vs = rng.choice(["jaxley.thomas", "jaxley.stone", "jax.sparse"])
            target = jnp.asarray(rng.random())
            case = {"parents": parents, "counts": counts, "hh": use_hh, "trainables": [list(p)[0] for p in params],
                    "groups": [np.asarray(i).tolist() for i in cell.indices_set_by_trainables], "solver": solver, "backend": vs}
            distinct.add((tuple(parents), tuple(counts), use_hh, tuple(case["trainables"]), solver, vs))

            def loss(p, cl=None, backend=vs):
                with quiet():
                    out = jx.integrate(cell, p, delta_t=0.025, solver=solver, voltage_solver=backend, checkpoint_lengths=cl)
                return jnp.sum((out[:, 1:] * 1e-2 - target) ** 2)
            g = fd_check(loss, params, case, nprobe=8 if mi else 12)
            if len(samples) < 2:
                samples.append(dict(case, grad=[np.asarray(x).tolist() for x in jax.tree_util.tree_leaves(g)][:3]))
            gl = np.concatenate([np.asarray(x).reshape(-1) for x in jax.tree_util.tree_leaves(g)])
            scale = max(1e-12, np.abs(gl).max())
            # the same gradient on every backend and under every checkpointing layout
            for other in ["jaxley.thomas", "jax.sparse"]:
                if other != vs:
                    try:
                        g2 = jax.grad(lambda p: loss(p, None, other))(params)
                    except (NotImplementedError, AssertionError, ValueError):
                        continue
                    evals += 1
                    g2l = np.concatenate([np.asarray(x).reshape(-1) for x in jax.tree_util.tree_leaves(g2)])
                    if np.abs(g2l - gl).max() > 1e-6 * scale:
                        viol.append(dict(case, kind="gradient depends on the voltage_solver backend", other=other,
                                         maxdiff=float(np.abs(g2l - gl).max()), scale=float(scale)))
            nsteps = len(cell.externals["i"][0])
            for cl in simlib.factorizations(nsteps, 2, slack=1)[1:3]:
                g3 = jax.grad(lambda p: loss(p, cl))(params)
                evals += 1
                g3l = np.concatenate([np.asarray(x).reshape(-1) for x in jax.tree_util.tree_leaves(g3)])
                if np.abs(g3l - gl).max() > 1e-8 * scale:
                    viol.append(dict(case, kind="gradient depends on checkpoint_lengths", checkpoint_lengths=cl,
                                     maxdiff=float(np.abs(g3l - gl).max())))
            # data-fed stimulus amplitude and data_set value
            amp0 = jnp.asarray(0.3)
            base_cur = jnp.asarray([simlib.dy(rng, 0, 1, 16) for _ in range(nst)])
            srow = rng.randrange(n)

            def loss_amp(a):
                with quiet():
                    ds = cell.select(nodes=[srow]).data_stimulate(a * base_cur, None)
                    out = jx.integrate(cell, params, data_stimuli=ds, delta_t=0.025, solver=solver, voltage_solver=vs)
                return jnp.sum((out[:, 1:] * 1e-2) ** 2)
            fd_check(loss_amp, amp0, dict(case, wrt="data_stimulate amplitude"), nprobe=1)
            dkey = rng.choice(["radius", "capacitance", "v"])

            def loss_ds(x):
                with quiet():
                    ps = cell.select(nodes=[srow]).data_set(dkey, x, None)
                    out = jx.integrate(cell, params, param_state=ps, delta_t=0.025, solver=solver, voltage_solver=vs)
                return jnp.sum((out[:, 1:] * 1e-2) ** 2)
            x0 = jnp.asarray(float(cell.nodes.loc[srow, dkey]) * 1.1 if dkey != "v" else -66.0)
            fd_check(loss_ds, x0, dict(case, wrt=f"data_set {dkey}"), nprobe=1)
        except Exception as ex:
            import traceback
            viol.append({"kind": "differentiating through integrate raised", "parents": parents, "counts": counts,
                         "error": repr(ex)[:300], "trace": traceback.format_exc()[-600:]})

    # synapse parameters and synaptic initial states in a network with interleaved types
    for mi in range(ctx.budget(2, 10)):
        try:
            comp = jx.Compartment()
            with quiet():
                net = jx.Network([jx.Cell([jx.Branch([comp] * 2)], parents=[-1]) for _ in range(3)])
                net.insert(HH())
                tys = [TestSynapse, IonotropicSynapse, IonotropicSynapse]
                for t in tys:
                    a, b = rng.sample(range(6), 2)
                    connect(net.select(nodes=[a]), net.select(nodes=[b]), t())
                for k in range(6):
                    net.select(nodes=[k]).set("v", -70.0 + 4 * k)
                net.select(nodes=[0]).stimulate(jnp.asarray([0.5, 0.5, 0.5, 0.5]))
                net.record("v")
                net.IonotropicSynapse.edge(0).make_trainable("IonotropicSynapse_gS")
                net.IonotropicSynapse.edge(1).make_trainable("IonotropicSynapse_s")
                net.TestSynapse.edge(0).make_trainable("TestSynapse_gC")
            params = net.get_parameters()
            case = {"network": "3 cells x 2 comps, edges [Test, Iono, Iono]", "trainables": [list(p)[0] for p in params]}
            distinct.add(("net", mi))

            def lossn(p):
                with quiet():
                    out = jx.integrate(net, p, delta_t=0.025, voltage_solver="jaxley.thomas")
                return jnp.sum((out[:, 1:] * 1e-2) ** 2)
            fd_check(lossn, params, case, nprobe=3)
        except Exception as ex:
            import traceback
            viol.append({"kind": "differentiating a network raised", "error": repr(ex)[:300], "trace": traceback.format_exc()[-600:]})
    try:
        evals += guard_gradient_cases(viol)
    except Exception as ex:
        import traceback
        viol.append({"kind": "guard gradient cases raised", "error": repr(ex)[:300], "trace": traceback.format_exc()[-500:]})
    try:
        evals += stone_gradient_case(viol)
    except Exception as ex:
        import traceback
        viol.append({"kind": "stone gradient case raised", "error": repr(ex)[:300], "trace": traceback.format_exc()[-500:]})
    for v in viol:
        v.setdefault("finding_class", None)
    return {"evaluations": evals, "distinct_nontrivial": len(distinct),
            "rule": "random branched cells (HH with a compartment at the singular voltage -40 mV, or Leak), stimulus, 3 trainable keys out of {radius, length, axial_resistivity, capacitance, v, channel parameters, gate states} on whole-module / shared unequal branch groups (incl. a gate state shared per branch over branches of unequal size) / single compartments, random (solver, backend): jax.grad of a quadratic loss vs central finite differences (h swept 1e-4..1e-6, float64) on random entries; the same gradient on the other backends and under checkpoint_lengths; gradients w.r.t. data_stimulate amplitudes and data_set values; synapse parameters / states in a network with interleaved types; distinct by (model, keys, solver, backend)",
            "samples": samples, "violations": viol[:20]}


def replay(ctx, case):
    return {"violated": False, "note": "re-run the check with the same VERIF_SEED"}
