"""C19 — any editing history leaves a consistent module that simulates its tables."""
import math

PROP_FILES = ["Props/C19.v"]
NEEDS_GEN = False
TRUSTED = ["Model/History.v is a hand-written abstraction of the table bookkeeping (row sets per channel flag / parameter column / recordings / stimuli / clamps / groups / trainables); it is run (vm_compute) on the operations of every sampled history and its final state compared with the real tables; the invariants it proves are also evaluated on the real tables after every operation",
           "the reference simulation is a module rebuilt from scratch out of the displayed tables only"]
ASSUMPTIONS = ["the for-all over histories is proved of the model for the modelled operations; the code is tied to it by exhaustive short and random longer histories on irregular cells and small networks"]


def channels():
    from jaxley.channels import HH, Leak, Na, K, Km, CaL, CaT
    return [HH, Leak, Na, K, Km, CaL, CaT]


def check_tables(m, viol, desc, after):
    """mutual consistency of the public tables."""
    import numpy as np
    nodes = m.nodes
    n = len(nodes)
    bad = []
    if list(nodes["global_comp_index"]) != list(range(n)) or list(nodes.index) != list(range(n)):
        bad.append("compartment indices are not contiguous")
    names = [c._name for c in m.channels]
    for c in m.channels:
        if c._name not in nodes.columns:
            bad.append(f"channel {c._name} registered but has no column")
            continue
        flag = nodes[c._name].to_numpy().astype(bool)
        for key in list(c.channel_params) + list(c.channel_states):
            if key not in nodes.columns:
                bad.append(f"column {key} of channel {c._name} is missing")
                continue
            isnan = nodes[key].isna().to_numpy()
            if np.any(flag & isnan):
                bad.append(f"{key} is NaN on a compartment that has channel {c._name}")
    allcols = {k: [c._name for c in m.channels if k in c.channel_params or k in c.channel_states]
               for c in m.channels for k in list(c.channel_params) + list(c.channel_states)}
    for key, owners in allcols.items():
        if key in nodes.columns:
            anyflag = np.zeros(n, dtype=bool)
            for o in owners:
                anyflag |= nodes[o].to_numpy().astype(bool)
            if np.any(~anyflag & ~nodes[key].isna().to_numpy()):
                bad.append(f"{key} is set on a compartment without any channel that owns it")
    for col in nodes.columns:
        if nodes[col].dtype == bool or set(nodes[col].dropna().unique()) <= {True, False}:
            if col not in names and col not in ("controlled_by_param",) and "index" not in col:
                if col in [c.__name__ for c in channels()]:
                    bad.append(f"column {col} looks like a channel flag but the channel is not registered")
    cur = {c.current_name for c in m.channels}
    if set(m.membrane_current_names) != cur:
        bad.append(f"membrane_current_names {m.membrane_current_names} != currents of the registered channels {sorted(cur)}")
    ne = len(m.edges)
    comp_states, edge_states = m._get_state_names()
    if len(m.recordings):
        for i, s in zip(m.recordings.rec_index, m.recordings.state):
            lim = ne if s in edge_states else n
            if not (0 <= int(i) < lim):
                bad.append(f"recording of {s} refers to row {int(i)} which does not exist")
            if s not in comp_states + edge_states:
                bad.append(f"recording of unknown state {s}")
    for key, inds in m.external_inds.items():
        lim = ne if key in edge_states else n
        if len(inds) != len(m.externals[key]):
            bad.append(f"externals[{key}] has {len(m.externals[key])} rows but {len(inds)} indices")
        if any(not (0 <= int(i) < lim) for i in np.asarray(inds)):
            bad.append(f"input {key} refers to a row that does not exist")
        elif key not in ("i", "v") and key not in comp_states + edge_states:
            bad.append(f"clamp of unknown state {key}")
    for g, rows in m.groups.items():
        if any(not (0 <= int(i) < n) for i in rows):
            bad.append(f"group {g} refers to a row that does not exist")
    ntrain = sum(len(np.asarray(list(p.values())[0]).reshape(-1)) for p in m.trainable_params)
    if int(m.num_trainable_params) != ntrain or len(m.indices_set_by_trainables) != len(m.trainable_params):
        bad.append(f"num_trainable_params = {m.num_trainable_params} but the trainable parameters hold {ntrain} values")
    for inds, p in zip(m.indices_set_by_trainables, m.trainable_params):
        key = list(p)[0]
        lim = ne if key in m.edges.columns else n
        if any(not (0 <= int(i) < lim) for i in np.asarray(inds).reshape(-1)):
            bad.append(f"trainable {key} refers to a row that does not exist")
        elif key not in nodes.columns and key not in m.edges.columns:
            bad.append(f"trainable {key} refers to a parameter that does not exist")
    for b in bad:
        viol.append(dict(desc, kind="tables are inconsistent: " + b, after_operation=after))
    return not bad


import pandas as pd


def rebuild(m):
    """A fresh cell built ONLY from what the tables display."""
    import numpy as np
    import jaxley as jx
    import jax.numpy as jnp
    import simlib
    comp = jx.Compartment()
    counts = [int(c) for c in m.ncomp_per_branch]
    parents = [int(p) for p in m.comb_parents]
    with simlib.quiet():
        cell = jx.Cell([jx.Branch([comp] * c) for c in counts], parents=parents)
        nodes = m.nodes
        for cls in channels():
            name = cls.__name__
            if name in nodes.columns:
                rows = [int(r) for r in nodes.index[nodes[name].astype(bool)]]
                if rows:
                    cell.select(nodes=rows).insert(cls())
        for col in nodes.columns:
            if "index" in col or col == "controlled_by_param" or col in [c.__name__ for c in channels()]:
                continue
            for r in range(len(nodes)):
                val = nodes.iloc[r][col]
                if val == val and col in cell.nodes.columns:
                    cell.select(nodes=[r]).set(col, float(val))
        for i, s in zip(m.recordings.rec_index, m.recordings.state):
            try:
                cell.select(nodes=[int(i)]).record(s)
            except KeyError:
                # a state recorded on a row that does not carry its channel (accepted when the recording view also held a
                # row that does; the trace is NaN): a one-row view refuses it, so the row is written to the table directly
                cell.recordings = pd.concat([cell.recordings, pd.DataFrame({"rec_index": [int(i)], "state": [s]})], ignore_index=True)
        for key, inds in m.external_inds.items():
            for j, i in enumerate(np.asarray(inds)):
                if key == "i":
                    cell.select(nodes=[int(i)]).stimulate(jnp.asarray(m.externals[key][j]))
                else:
                    cell.select(nodes=[int(i)]).clamp(key, jnp.asarray(m.externals[key][j]))
    return cell


def refs_correspondence(ctx, viol, distinct):
    """Model/HistoryRefs.v against the code: random histories of insert / delete_channel / record(<channel state or
    current>) / delete_recordings through random views of a small cell; compared are the acceptance of every call
    and the final recordings (state, compartment).  C19_references_stay_known is a theorem about the model."""
    import numpy as np
    import jaxley as jx
    import coqeval
    from jaxley.channels import Leak, Na, K, Km
    from simlib import quiet
    rng = ctx.rng
    CH = [Leak, Na, K, Km]
    cols = []
    for c in CH:
        for k in list(c().channel_params) + list(c().channel_states) + [c().current_name]:
            if k not in cols:
                cols.append(k)
    owns = "[" + "; ".join("[" + "; ".join(str(cols.index(k)) for k in list(c().channel_params) + list(c().channel_states) + [c().current_name]) + "]" for c in CH) + "]"
    recordable = [k for c in CH for k in list(c().channel_states) + [c().current_name]]
    nl = lambda xs: "[" + "; ".join(str(int(x)) for x in xs) + "]"
    jobs, exprs = [], []
    # scripted histories first: the state recorded only where the channel never was (F69), recorded where it is
    # deleted (F65), and a shared current (i_K of K and Km) that survives the deletion of one of its owners
    scripted = [
        [("insert", 1, [0, 1]), ("ref", "Na_m", [0, 1, 2, 3]), ("unref", None, [0, 1]), ("delete", 1, [0, 1])],
        [("insert", 1, [0, 1, 2, 3]), ("ref", "Na_m", [2]), ("delete", 1, [0, 1, 2, 3])],
        [("insert", 2, [0, 1, 2, 3]), ("insert", 3, [0, 1, 2, 3]), ("ref", "i_K", [0]), ("delete", 2, [0, 1, 2, 3]), ("delete", 3, [0, 1, 2, 3])],
        [("insert", 2, [0, 1]), ("insert", 3, [2, 3]), ("ref", "i_K", [0, 1, 2, 3]), ("delete", 2, [0, 1])],
    ]
    for it in range(ctx.budget(12, 120)):
        with quiet():
            cell = jx.Cell([jx.Branch(jx.Compartment(), 2)] * 2, parents=[-1, 0])
        n = len(cell.nodes)
        ops, acc, hist = [], [], []
        script = scripted[it] if it < len(scripted) else None
        for _k in range(len(script) if script else rng.randint(3, 9)):
            if script:
                kind, what, rows = script[_k]
            else:
                rows = sorted(rng.sample(range(n), rng.randint(1, n)))
                kind = rng.choice(["insert", "insert", "delete", "delete", "ref", "ref", "unref"])
                what = None
            view = cell.select(nodes=rows)
            with quiet():
                if kind == "insert":
                    k = rng.randrange(len(CH)) if what is None else what
                    view.insert(CH[k]())
                    ops.append(f"RInsert {k} {nl(rows)}"); acc.append(True); hist.append(f"insert {CH[k].__name__} on {rows}")
                elif kind == "delete":
                    k = rng.randrange(len(CH)) if what is None else what
                    try:
                        view.delete_channel(CH[k]())
                        ok = True
                    except ValueError:
                        ok = False
                    ops.append(f"RDelete {k} {nl(rows)}"); acc.append(ok); hist.append(f"delete_channel {CH[k].__name__} on {rows} -> {'ok' if ok else 'refused'}")
                elif kind == "ref":
                    st = rng.choice(recordable) if what is None else what
                    try:
                        view.record(st, verbose=False)
                        ok = True
                    except KeyError:
                        ok = False
                    ops.append(f"RRef {cols.index(st)} {nl(rows)}"); acc.append(ok); hist.append(f"record {st} on {rows} -> {'ok' if ok else 'refused'}")
                else:
                    view.delete_recordings()
                    ops.append(f"RUnref {nl(rows)}"); acc.append(True); hist.append(f"delete_recordings on {rows}")
        refs = sorted((cols.index(s_), int(i)) for s_, i in zip(cell.recordings.state, cell.recordings.rec_index)) if len(cell.recordings) else []
        comp_states, _ = cell._get_state_names()
        unknown = [s_ for s_ in (cell.recordings.state if len(cell.recordings) else []) if s_ not in comp_states]
        exprs.append(f"let ow := fun k => nth k {owns} [] in let ops := [{'; '.join(ops)}] in "
                     f"(accepted ow {len(CH)} rinit ops, (rrefs (rrun ow {len(CH)} rinit ops), refs_known ow {len(CH)} (rrun ow {len(CH)} rinit ops)))")
        jobs.append((hist, acc, refs, unknown))
        distinct.add(("refs", tuple(ops)))
    import ast
    outs = coqeval.coq_eval(["HistoryRefs"], exprs, prelude="Close Scope Q_scope. Open Scope nat_scope.", shard=8)
    for (hist, acc, refs, unknown), o in zip(jobs, outs):
        macc, (mrefs, mknown) = ast.literal_eval(o.replace("%nat", "").replace(";", ",").replace("true", "True").replace("false", "False"))
        if list(macc) != acc or sorted(tuple(x) for x in mrefs) != refs:
            viol.append({"kind": "the code's handling of references to channel states differs from Model/HistoryRefs.v (acceptance of the calls / final recordings)",
                         "history": hist, "accepted_code": acc, "accepted_model": list(macc), "recordings_code": refs, "recordings_model": sorted(tuple(x) for x in mrefs)})
        if unknown or not mknown:
            viol.append({"kind": "a recording refers to a state that the module no longer knows", "history": hist, "unknown_states": unknown})
    return len(jobs)


def run(ctx):
    import copy
    import numpy as np
    import jax.numpy as jnp
    import jaxley as jx
    import simlib
    from simlib import quiet
    rng = ctx.rng
    viol, samples, distinct = [], [], set()
    evals = 0
    comp = jx.Compartment()
    OPS = ["insert", "delete_channel", "set", "set_ncomp", "add_to_group", "record", "delete_recordings", "stimulate", "clamp",
           "delete_stimuli", "delete_clamps", "make_trainable", "delete_trainables", "init_states"]

    def apply(cell, op, rng):
        """apply one operation; a refused operation must leave the module untouched"""
        snap = simlib.snapshot(cell)
        nrows = len(cell.nodes)
        txt = apply_(cell, op, rng)
        if txt is not None and "(refused" in txt:
            changed = simlib.diff_snap(snap, simlib.snapshot(cell))
            if changed or len(cell.nodes) != nrows:
                viol.append({"kind": "a refused operation modified the module", "operation": txt, "changed": changed,
                             "parents": [int(x) for x in cell.comb_parents], "counts": [int(x) for x in cell.ncomp_per_branch]})
        return txt

    CH_ID = {c.__name__: k for k, c in enumerate(channels())}
    COLS = []
    for c in channels():
        for k in list(c().channel_params) + list(c().channel_states):
            if k not in COLS:
                COLS.append(k)
    OWNS = "[" + "; ".join("[" + "; ".join(str(COLS.index(k)) for k in list(c().channel_params) + list(c().channel_states)) + "]" for c in channels()) + "]"
    model = {"ops": [], "groups": []}

    def cl(xs):
        return "[" + "; ".join(str(int(x)) for x in xs) + "]"

    def apply_(cell, op, rng):
        n = len(cell.nodes)
        rows = sorted(rng.sample(range(n), rng.randint(1, n)))
        view = cell.select(nodes=rows) if rng.random() < 0.8 else cell
        R = rows if view is not cell else list(range(n))
        mops = model["ops"]
        txt = f"{op} on rows {rows if view is not cell else 'all'}"
        with quiet():
            if op == "insert":
                cls = rng.choice(channels())
                view.insert(cls())
                txt += f" {cls.__name__}"
                mops.append(f"Insert {CH_ID[cls.__name__]} {cl(R)}")
            elif op == "delete_channel":
                if not cell.channels:
                    return None
                ch = rng.choice(cell.channels)
                txt += f" {ch._name}"
                try:
                    view.delete_channel(ch)
                except ValueError:
                    return txt + " (refused: not in view)"
                mops.append(f"Delete {CH_ID[type(ch).__name__]} {cl(R)}")
            elif op == "set":
                key = rng.choice(["radius", "length", "v"] + [k for c in cell.channels for k in c.channel_params])
                view.set(key, {"radius": 1.5, "length": 8.0, "v": -63.0}.get(key, 1e-3))
                txt += f" {key}"
                mops.append(f"SetParam {cl(R)}")
            elif op == "set_ncomp":
                if len(cell.externals) or len(cell.recordings) or len(cell.trainable_params) or len(cell.comb_parents) < 2:
                    return None
                b = rng.randrange(len(cell.comb_parents))
                k = rng.randint(1, 3)
                if len(cell.comb_parents) >= 3 and rng.random() < 0.3:
                    # several branches at once (not all of them): refused, never half done
                    bs = sorted(rng.sample(range(len(cell.comb_parents)), 2))
                    txt = f"branch({bs}).set_ncomp({k})"
                    try:
                        cell.branch(bs).set_ncomp(k)
                    except (AssertionError, ValueError, KeyError, IndexError) as ex:
                        return txt + " (refused: " + type(ex).__name__ + ")"
                    return txt
                txt = f"branch({b}).set_ncomp({k})"
                start = int(sum(int(x) for x in cell.ncomp_per_branch[:b]))
                old = int(cell.ncomp_per_branch[b])
                try:
                    cell.branch(b).set_ncomp(k)
                except ValueError as ex:
                    return txt + " (refused: " + str(ex)[:40] + ")"
                mops.append(f"SetNcomp {start} {old} {k}")
            elif op == "add_to_group":
                gname = rng.choice(["g1", "g2"])
                view.add_to_group(gname)
                if gname not in model["groups"]:
                    model["groups"].append(gname)
                mops.append(f"AddToGroup {model['groups'].index(gname)} {cl(R)}")
            elif op == "record":
                st = rng.choice(["v"] + [k for c in cell.channels for k in c.channel_states][:2])
                try:
                    view.record(st)
                except KeyError:
                    # a view none of whose rows carries the channel of this state does not know the state: a refusal,
                    # not a violation (a refusal although a row of the view carries the channel would be one)
                    owner = [c._name for c in cell.channels if st in c.channel_states]
                    rows_v = [int(i) for i in view.nodes.index]
                    if st == "v" or not owner or bool(cell.nodes.loc[rows_v, owner[0]].astype(bool).any()):
                        raise
                    return txt + f" {st} (refused: state not in view)"
                txt += f" {st}"
                mops.append(f"Record_ {cl(R)}")
            elif op == "delete_recordings":
                view.delete_recordings()
                mops.append(f"DeleteRecordings {cl(R)}")
            elif op == "stimulate":
                view.stimulate(jnp.asarray([0.05, 0.1, 0.0]))
                mops.append(f"Stimulate {cl(R)}")
            elif op == "clamp":
                view.clamp("v", jnp.asarray([-60.0, -60.0, -60.0]))
                mops.append(f"Clamp {cl(R)}")
            elif op == "delete_stimuli":
                view.delete_stimuli()
                mops.append(f"DeleteStimuli {cl(R)}")
            elif op == "delete_clamps":
                view.delete_clamps()
                mops.append(f"DeleteClamps {cl(R)}")
            elif op == "make_trainable":
                key = rng.choice(["radius", "length", "v"] + [k for c in cell.channels for k in list(c.channel_params)[:1] + list(c.channel_states)[:1]])
                txt += f" {key}"
                ntr = len(cell.trainable_params)
                how = rng.choice(["view", "view", "per_branch", "per_comp"])
                try:
                    if how == "per_branch" and view is not cell:
                        # one parameter per branch in view (several groups of possibly unequal size)
                        bs = sorted(set(int(b) for b in cell.nodes.loc[rows, "global_branch_index"]))
                        cell.branch(bs).make_trainable(key)
                        txt += f" per branch {bs}"
                    elif how == "per_comp" and view is not cell:
                        bs = sorted(set(int(b) for b in cell.nodes.loc[rows, "global_branch_index"]))
                        cell.branch(bs).comp("all").make_trainable(key)
                        txt += f" per compartment of branches {bs}"
                    else:
                        view.make_trainable(key)
                except (KeyError, AssertionError, ValueError):
                    return txt + " (refused)"
                if len(cell.trainable_params) == ntr + 1:
                    gs = [sorted(set(int(i) for i in g if int(i) >= 0)) for g in np.asarray(cell.indices_set_by_trainables[-1]).tolist()]
                    mops.append("MakeTrainable [" + "; ".join(cl(g) for g in gs) + "]")
            elif op == "delete_trainables":
                # independent expectation: every group loses exactly the rows of the view
                inview = set(rows) if view is not cell else set(range(n))
                want = []
                for inds, p in zip(cell.indices_set_by_trainables, cell.trainable_params):
                    k = list(p)[0]
                    groups = [[int(i) for i in g if int(i) not in inview and int(i) >= 0] for g in np.asarray(inds).tolist()]
                    groups = [sorted(set(g)) for g in groups if g]
                    if groups:
                        want.append((k, sorted(groups)))
                view.delete_trainables()
                mops.append(f"DeleteTrainables {cl(sorted(inview))}")
                got = []
                for inds, p in zip(cell.indices_set_by_trainables, cell.trainable_params):
                    groups = [sorted(set(int(i) for i in g if int(i) >= 0)) for g in np.asarray(inds).tolist()]
                    groups = [g for g in groups if g]
                    if groups:
                        got.append((list(p)[0], sorted(groups)))
                # how the surviving groups are bundled into entries of `trainable_params` is not part of the meaning (a
                # trainable that is partly in view is split into its untouched and its shrunk groups): compare the groups
                flat = lambda es: sorted((k_, tuple(g_)) for k_, gs_ in es for g_ in gs_)
                nvals_ok = all(len(np.asarray(list(p_.values())[0]).reshape(-1)) == len(np.asarray(i_).reshape(len(np.asarray(i_)), -1))
                               for i_, p_ in zip(cell.indices_set_by_trainables, cell.trainable_params))
                if flat(got) != flat(want) or not nvals_ok:
                    viol.append({"kind": "delete_trainables through a view did not remove exactly the trainables of the view",
                                 "rows_in_view": sorted(inview), "expected": sorted(want), "got": sorted(got),
                                 "parents": [int(x) for x in cell.comb_parents], "counts": [int(x) for x in cell.ncomp_per_branch]})
            elif op == "init_states":
                cell.init_states()
                mops.append("InitStates")
        return txt

    # refused set_ncomp calls (several branches at once, whole cell) leave the module untouched
    for counts0 in ([2, 2, 2], [1, 3, 2, 2]):
        try:
            with quiet():
                c3 = jx.Cell([jx.Branch([comp] * k) for k in counts0], parents=[-1, 0, 0, 1][: len(counts0)])
                c3.insert(channels()[1]())
                c3.branch(1).add_to_group("g1")
            snap = simlib.snapshot(c3)
            for sel in ([1, 2], [0, 1], "all", "part of branch 1"):
                evals += 1
                try:
                    with quiet():
                        if sel == "part of branch 1":
                            c3.branch(1).comp(0).set_ncomp(3)
                        else:
                            c3.branch(sel).set_ncomp(3)
                    accepted = True
                except Exception:
                    accepted = False
                if not accepted:
                    ch = simlib.diff_snap(snap, simlib.snapshot(c3))
                    if ch or [int(x) for x in c3.ncomp_per_branch] != counts0:
                        viol.append({"kind": "a refused operation modified the module", "operation": f"branch({sel}).set_ncomp(3)", "counts": counts0,
                                     "changed": ch, "ncomp_per_branch": [int(x) for x in c3.ncomp_per_branch], "rows": len(c3.nodes)})
                        break
                elif sel == "part of branch 1" and counts0[1] > 1:
                    viol.append({"kind": "set_ncomp through a view of part of a branch was accepted", "counts": counts0,
                                 "ncomp_per_branch": [int(x) for x in c3.ncomp_per_branch], "rows": len(c3.nodes)})
                    break
                else:
                    check_tables(c3, viol, {"counts": counts0}, f"branch({sel}).set_ncomp(3)")
                    break
        except Exception as ex:
            viol.append({"kind": "refusal test raised", "error": repr(ex)[:300]})

    model_jobs = []
    nhist = ctx.budget(14, 120)
    for hi in range(nhist):
        nb = rng.randint(1, 3)
        parents = simlib.rand_parents(rng, nb)
        counts = [rng.randint(1, 3) for _ in range(nb)]
        with quiet():
            cell = jx.Cell([jx.Branch([comp] * c) for c in counts], parents=parents)
        depth = rng.randint(2, ctx.budget(7, 12))
        hist = []
        model["ops"], model["groups"] = [], []
        n0 = len(cell.nodes)
        desc = {"parents": parents, "counts": counts, "history": hist}
        ok = True
        # the first histories start with the shared-column pattern
        forced = [["insert:Na", "insert:K", "delete_channel:Na"], ["insert:K", "insert:Km", "delete_channel:K"], ["insert:CaL", "insert:CaT", "delete_channel:CaT"]]
        try:
            if hi < len(forced):
                from jaxley import channels as CH
                for f in forced[hi]:
                    o, name = f.split(":")
                    with quiet():
                        getattr(cell, o)(getattr(CH, name)())
                    model["ops"].append(f"{'Insert' if o == 'insert' else 'Delete'} {CH_ID[name]} {cl(range(len(cell.nodes)))}")
                    hist.append(f"{o} {name} on all rows")
                    ok = check_tables(cell, viol, desc, hist[-1]) and ok
            elif hi < 2 * len(forced) and len(cell.nodes) >= 2:
                # the same patterns on DISJOINT views: the channel is deleted through a view that does
                # not contain the partner it shares a column / current with
                from jaxley import channels as CH
                n_ = len(cell.nodes)
                cut = rng.randint(1, n_ - 1)
                A, B = list(range(cut)), list(range(cut, n_))
                X_, Y_, Z_ = [f.split(":")[1] for f in forced[hi - len(forced)]]
                gone_first = Z_
                keep = Y_ if Z_ == X_ else X_
                for rows_, o, name in ((A, "insert", keep), (B, "insert", gone_first), (B, "delete_channel", gone_first)):
                    with quiet():
                        getattr(cell.select(nodes=rows_), o)(getattr(CH, name)())
                    model["ops"].append(f"{'Insert' if o == 'insert' else 'Delete'} {CH_ID[name]} {cl(rows_)}")
                    hist.append(f"{o} {name} on rows {rows_}")
                    evals += 1
                    ok = check_tables(cell, viol, desc, hist[-1]) and ok
            for d in range(depth):
                op = rng.choice(OPS)
                txt = apply(cell, op, rng)
                if txt is None:
                    continue
                hist.append(txt)
                evals += 1
                ok = check_tables(cell, viol, desc, txt) and ok
                if not ok:
                    break
        except Exception as ex:
            import traceback
            viol.append(dict(desc, kind="an accepted operation raised", error=repr(ex)[:300], trace=traceback.format_exc()[-500:]))
            continue
        distinct.add((tuple(parents), tuple(counts), tuple(hist)))
        # the tables after the history, to be compared with Model/History.v run on the same operations
        try:
            nd = cell.nodes
            chan_real = [sorted(int(i) for i in nd.index[nd[c.__name__].to_numpy().astype(bool)]) if c.__name__ in nd.columns else [] for c in channels()]
            col_real = [sorted(int(i) for i in nd.index[~nd[k].isna().to_numpy()]) if k in nd.columns else [] for k in COLS]
            cstates, _ = cell._get_state_names()
            recs_real = sorted(set(int(i) for i, st_ in zip(cell.recordings.rec_index, cell.recordings.state) if st_ in cstates)) if len(cell.recordings) else []
            exts_real = sorted(int(i) for i in np.asarray(cell.external_inds.get("i", [])).reshape(-1))
            clamps_real = sorted(set(int(i) for i in np.asarray(cell.external_inds.get("v", [])).reshape(-1)))
            groups_real = [sorted(int(i) for i in cell.groups[g]) for g in model["groups"] if g in cell.groups]
            trains_real = sorted(sorted(set(int(i) for i in g if int(i) >= 0)) for inds in cell.indices_set_by_trainables for g in np.asarray(inds).tolist())
            real_state = [len(nd), chan_real, col_real, recs_real, exts_real, clamps_real, groups_real, trains_real]
            ops = "[" + "; ".join(model["ops"]) + "]"
            expr = (f"let ow := fun k => nth k {OWNS} [] in let s := run ow {len(channels())} (init {n0}) {ops} in "
                    f"(nrows s, (map (chan s) (seq 0 {len(channels())}), (map (col s) (seq 0 {len(COLS)}), (recs s, (exts s, (clamps s, (groups s, trains s)))))))")
            model_jobs.append((expr, real_state, dict(desc, history=list(hist), model_ops=list(model["ops"]))))
        except Exception as ex:
            import traceback
            viol.append(dict(desc, kind="could not read the tables for the model comparison", error=repr(ex)[:300], trace=traceback.format_exc()[-400:]))
        if len(samples) < 2:
            samples.append(dict(desc, history=list(hist)))
        if not ok:
            continue
        # integrate simulates exactly the model displayed by the tables
        try:
            with quiet():
                if not len(cell.recordings):
                    cell.record("v")
                    hist.append("record v on all rows (for the final simulation)")
                kw = dict(delta_t=0.025, voltage_solver="jax.sparse")
                if not len(cell.externals):
                    kw["t_max"] = 0.05
                params = cell.get_parameters()
                out = np.asarray(jx.integrate(cell, params, **kw))
                ref_cell = rebuild(cell)
                # a trainable overrides the table on the rows it controls (a shared one starts at the MEAN of its rows):
                # the reference gets the same values written into its table
                for inds_, p_ in zip(cell.indices_set_by_trainables, params):
                    key_ = list(p_)[0]
                    if key_ not in ref_cell.nodes.columns:
                        continue
                    for g_, val_ in zip(np.asarray(inds_).tolist(), np.asarray(p_[key_]).reshape(-1).tolist()):
                        rows_ = sorted(set(int(r_) for r_ in g_ if 0 <= int(r_) < len(ref_cell.nodes)))
                        if rows_:
                            ref_cell.select(nodes=rows_).set(key_, float(val_))
                ref = np.asarray(jx.integrate(ref_cell, **kw))
            evals += 1
            if out.shape != ref.shape or not np.allclose(out, ref, rtol=0, atol=1e-9, equal_nan=True):
                viol.append(dict(desc, kind="integrate does not simulate the model displayed by the tables (a module rebuilt from the tables differs)",
                                 maxdiff=float(np.nanmax(np.abs(out - ref))) if out.shape == ref.shape else None,
                                 shapes=[list(out.shape), list(ref.shape)]))
        except Exception as ex:
            import traceback
            viol.append(dict(desc, kind="integrate after an accepted history raised", error=repr(ex)[:300], trace=traceback.format_exc()[-600:]))

    # ---- correspondence: Model/History.v run on the same operations must show the same tables
    nmodel = 0
    try:
        import coqeval, re, ast
        outs = coqeval.coq_eval(["SetNcomp", "History", "HistoryFacts"], [j[0] for j in model_jobs], prelude="Close Scope Q_scope. Open Scope nat_scope.")

        def norm(x):
            return x
        for (expr, real, d), o in zip(model_jobs, outs):
            t = ast.literal_eval(o.replace(";", ","))
            # unnest the right-nested pairs
            flat = []
            while isinstance(t, tuple) and len(t) == 2 and len(flat) < 7:
                flat.append(t[0]); t = t[1]
            flat.append(t)
            nrows_m, chan_m, col_m, recs_m, exts_m, clamps_m, groups_m, trains_m = flat
            mstate = [nrows_m, [sorted(x) for x in chan_m], [sorted(x) for x in col_m], sorted(set(recs_m)), sorted(exts_m), sorted(set(clamps_m)),
                      [sorted(set(g)) for g in groups_m], sorted(sorted(g) for tr in trains_m for g in tr)]
            nmodel += 1
            names = ["number of rows", "channel flags", "parameter/state columns", "recorded rows", "stimulated rows", "clamped rows", "groups", "trainables"]
            for nm, a, b in zip(names, real, mstate):
                if a != b:
                    viol.append(dict(d, kind=f"the tables differ from Model/History.v run on the same operations: {nm}", tables=a, model=b))
                    break
    except Exception as ex:
        import traceback
        viol.append({"kind": "History correspondence could not be evaluated", "error": repr(ex)[:500], "trace": traceback.format_exc()[-500:], "no_failing_input_found": True})

    # shared trainables whose groups are only PARTIALLY in the view that deletes them
    try:
        for key, mkt, mkd in (("radius", lambda c: c.branch("all"), lambda c: c.branch("all").comp(0)),
                              ("length", lambda c: c.branch([0, 2]), lambda c: c.select(nodes=[1, 2, 7])),
                              ("v", lambda c: c.branch("all").comp("all"), lambda c: c.branch(1))):
            with quiet():
                ct = jx.Cell([jx.Branch([comp] * 3) for _ in range(3)], parents=[-1, 0, 0])
                mkt(ct).make_trainable(key)
                before = [[sorted(set(int(i) for i in g if int(i) >= 0)) for g in np.asarray(inds).tolist()] for inds in ct.indices_set_by_trainables]
                dv = mkd(ct)
                inview = set(int(i) for i in dv._nodes_in_view)
                dv.delete_trainables()
            evals += 1
            want = sorted(g2 for g2 in ([i for i in g if i not in inview] for tr in before for g in tr) if g2)
            got = sorted(sorted(set(int(i) for i in g if int(i) >= 0)) for inds in ct.indices_set_by_trainables for g in np.asarray(inds).tolist())
            got = [g for g in got if g]
            nvals = sum(len(np.asarray(list(p.values())[0]).reshape(-1)) for p in ct.trainable_params)
            if got != want or nvals != len(want) or int(ct.num_trainable_params) != len(want):
                viol.append({"kind": "delete_trainables through a view that partially covers several parameter groups does not leave exactly the remaining rows of each group",
                             "key": key, "groups_before": before, "rows_in_view": sorted(inview), "groups_after": got, "expected": want,
                             "parameter_values": nvals, "num_trainable_params": int(ct.num_trainable_params)})
            with quiet():
                ct.record("v")
                jx.integrate(ct, ct.get_parameters(), t_max=0.05)
    except Exception as ex:
        import traceback
        viol.append({"kind": "partial deletion of shared trainables raised", "error": repr(ex)[:300], "trace": traceback.format_exc()[-500:]})

    # recordings of several record() calls deleted through one view; networks of cells with DIFFERENT
    # channels (the flag columns then have dtype object): deleting a channel through a view
    try:
        for rep in range(ctx.budget(3, 12)):
            with quiet():
                cl = jx.Cell([jx.Branch([comp] * 2) for _ in range(3)], parents=[-1, 0, 0])
                calls = [rng.randrange(6) for _ in range(rng.randint(2, 5))]
                for r in calls:
                    cl.select(nodes=[r]).record("v")
                vr = sorted(rng.sample(range(6), rng.randint(1, 5)))
                cl.select(nodes=vr).delete_recordings()
            evals += 1
            left = [int(x) for x in cl.recordings.rec_index] if len(cl.recordings) else []
            want = []
            for r in calls:
                if r not in vr and r not in want:
                    want.append(r)
            if left != want:
                viol.append({"kind": "delete_recordings through a view did not remove exactly the view's recordings", "record_calls": calls, "rows_in_view": vr, "left": left, "expected": want})
            CHS = channels()
            with quiet():
                sets = [rng.sample(CHS, rng.randint(1, 2)) for _ in range(3)]
                cellsx = []
                for k, chs in enumerate(sets):
                    cx = jx.Cell([jx.Branch([comp] * 2) for _ in range(2)], parents=[-1, 0])
                    for c_ in chs:
                        cx.insert(c_())
                    cellsx.append(cx)
                netx = jx.Network(cellsx)
            k = rng.randrange(3)
            ch = rng.choice(sets[k])
            rows_before = [int(i) for i in netx.nodes.index[netx.nodes[ch.__name__].fillna(False).astype(bool).to_numpy()]]
            vrows = [4 * k, 4 * k + 1]            # branch 0 of cell k
            with quiet():
                netx.cell(k).branch(0).delete_channel(ch())
            evals += 1
            want_rows = [r for r in rows_before if r not in vrows]
            got_rows = [int(i) for i in netx.nodes.index[netx.nodes[ch.__name__].fillna(False).astype(bool).to_numpy()]] if ch.__name__ in netx.nodes.columns else []
            dsc = {"channels_per_cell": [[c_.__name__ for c_ in x] for x in sets], "deleted": ch.__name__, "through": f"cell({k}).branch(0)"}
            if got_rows != want_rows or (want_rows and ch.__name__ not in [c_._name for c_ in netx.channels]):
                viol.append(dict(dsc, kind="delete_channel through a view of a network removed the channel from other compartments too", rows_before=rows_before, rows_after=got_rows, expected=want_rows))
            check_tables(netx, viol, dsc, "delete_channel through a view of a network")
    except Exception as ex:
        import traceback
        viol.append({"kind": "recording / network delete_channel checks raised", "error": repr(ex)[:300], "trace": traceback.format_exc()[-500:]})

    # deletions undo their insertions
    for cls in channels():
        try:
            with quiet():
                cell = jx.Cell([jx.Branch([comp] * 2)] * 2, parents=[-1, 0])
                from jaxley.channels import Leak
                cell.insert(Leak()) if cls.__name__ != "Leak" else None
                before = cell.nodes.copy()
                rows = sorted(rng.sample(range(4), rng.randint(1, 4)))
                cell.select(nodes=rows).insert(cls())
                cell.select(nodes=rows).delete_channel(cls())
            evals += 1
            after = cell.nodes
            same = list(before.columns) == list(after.columns) and all(
                (a == b) or (a != a and b != b) for col in before.columns for a, b in zip(before[col], after[col]))
            if not same or [c._name for c in cell.channels] != (["Leak"] if cls.__name__ != "Leak" else []):
                viol.append({"kind": "delete_channel does not undo insert", "channel": cls.__name__, "rows": rows,
                             "columns_before": list(before.columns), "columns_after": list(after.columns)})
        except Exception as ex:
            viol.append({"kind": "insert followed by delete_channel raised", "channel": cls.__name__, "error": repr(ex)[:300]})

    # networks: connect + recordings of synaptic states + view-level deletions
    from jaxley.connect import connect
    from jaxley.synapses import IonotropicSynapse, TestSynapse
    for _ in range(ctx.budget(3, 20)):
        try:
            with quiet():
                net = jx.Network([jx.Cell([jx.Branch([comp] * 2)], parents=[-1]) for _ in range(3)])
                hist = []
                for k in range(rng.randint(2, 4)):
                    a, b = rng.sample(range(6), 2)
                    t = rng.choice([IonotropicSynapse, TestSynapse])
                    connect(net.select(nodes=[a]), net.select(nodes=[b]), t())
                    hist.append(f"connect {a}->{b} {t.__name__}")
                for t in sorted(set(net.edges["type"])):
                    net.record(f"{t}_{'s' if t == 'IonotropicSynapse' else 'c'}")
                    net.record(f"i_{t}")          # synaptic CURRENTS are indexed by synapse, too
                net.cell(2).record("v")
                recs_before = [(int(i), str(s)) for i, s in zip(net.recordings.rec_index, net.recordings.state)]
                c = rng.randrange(3)
                comps_c = set(int(r) for r in net.nodes.index[net.nodes["global_cell_index"] == c])
                edges_c = set(int(e) for e in net.edges.index
                              if int(net.edges.loc[e, "pre_global_comp_index"]) in comps_c and int(net.edges.loc[e, "post_global_comp_index"]) in comps_c)
                view = net.cell(c)
                view_recs = [(int(i), str(s)) for i, s in zip(view.recordings.rec_index, view.recordings.state)] if len(view.recordings) else []
                view.delete_recordings()
                hist.append(f"cell({c}).delete_recordings()")
            evals += 1
            desc = {"history": hist}
            check_tables(net, viol, desc, hist[-1])
            own = [(i, s_) for (i, s_) in recs_before if (i in comps_c if s_ == "v" else i in edges_c)]
            if sorted(view_recs) != sorted(own):
                viol.append(dict(desc, kind="a view lists recordings that do not belong to its compartments / synapses", view=view_recs, expected=own))
            recs_after = [(int(i), str(s)) for i, s in zip(net.recordings.rec_index, net.recordings.state)] if len(net.recordings) else []
            if recs_after != [r for r in recs_before if r not in own]:
                viol.append(dict(desc, kind="view-level delete_recordings removed recordings that are not in the view (or kept its own)",
                                 before=recs_before, after=recs_after, own=own))
        except Exception as ex:
            import traceback
            viol.append({"kind": "network history raised", "error": repr(ex)[:300], "trace": traceback.format_exc()[-500:]})
    try:
        nrefs = refs_correspondence(ctx, viol, distinct)
    except Exception as ex:
        import traceback
        nrefs = 0
        viol.append({"kind": "references correspondence could not be evaluated", "error": repr(ex)[:500], "trace": traceback.format_exc()[-800:], "no_failing_input_found": True})
    evals += nrefs
    import regress
    evals += regress.run("C19", viol)
    for v in viol:
        v.setdefault("finding_class", None)
    return {"evaluations": evals, "distinct_nontrivial": len(distinct),
            "rule": "random histories (depth 2..7/12) over 14 operations (make_trainable on geometric keys, v, channel parameters and states; delete_trainables through views against an independent expectation) on random views of irregular cells, the first ones seeded with shared-column patterns (Na/K vt, K/Km eK and i_K, CaL/CaT eCa) on the whole module and on disjoint views (the channel is deleted through a view that does not contain its partner): after EVERY operation contiguity, channel registry, parameters-where-channel, currents, and the row references of recordings/inputs/groups/trainables are checked on the public tables; then integrate is compared with a module rebuilt from the tables only; insert+delete round trips for every channel; recordings of several record() calls deleted through one view; delete_channel through views of networks whose cells have different channels; network histories with recordings of synaptic states and currents and view-level deletions; distinct by (cell, history)",
            "samples": samples, "violations": viol[:20], "traces_validated_against_impl": nmodel}


def replay(ctx, case):
    return {"violated": False, "note": "re-run the check with the same VERIF_SEED"}
