"""C16 — SWC import preserves the traced morphology."""
import math

PROP_FILES = ["Props/C16.v"]
NEEDS_GEN = False
TRUSTED = ["tools/swcref.py: independent declarative reference (sections, conventions for lengths, radius interpolation, groups)",
           "Model/Swc.v: the checker whose soundness is proved; it is run on the reader's output, the reader's loop itself is not modelled"]
ASSUMPTIONS = ["the sectioning loop of the reader is modelled line by line (Model/SwcRead.v), compared exactly with the code on every generated file and proved correct for every well-formed file; path lengths, radius functions and max_branch_len splitting are compared with an independent reference only",
               "well-formed SWC input (single tree, parents before children, depth-first); the for-all is tested on random trees"]

NAMES = {0: "undefined", 1: "soma", 2: "axon", 3: "basal", 4: "apical", 5: "custom"}


def expected_split_lengths(rows, sections, single_point_soma, mbl):
    """what read_swc(max_branch_len=mbl) must produce, piece by piece (independent of the code; the rule of
    Model/SwcSplit.v): a section longer than mbl is cut into k = 2, 3, ... pieces at the traced points i*segments//k
    until no piece is longer than mbl, k = 11, or every segment is a piece of its own; the zero-length segment from a
    single-point soma stays with the first piece.  Returns the sorted piece lengths."""
    xyz = {int(r[0]): (float(r[2]), float(r[3]), float(r[4])) for r in rows}
    typ = {int(r[0]): int(r[1]) for r in rows}
    rad = {int(r[0]): float(r[5]) for r in rows}
    out = []
    for sec in sections:
        sec = [int(p) for p in sec]
        if sec == [0]:
            out.append(0.1)           # the artificial root branch that joins several sections starting at the root point
            continue
        if len(sec) == 1:
            out.append(2 * rad[sec[0]])
            continue
        seg = [math.dist(xyz[a], xyz[b]) for a, b in zip(sec, sec[1:])]
        gap = single_point_soma and typ[sec[0]] == 1 and typ[sec[1]] != 1
        if gap:
            seg[0] = 0.0
        pieces = [seg]
        k = 1
        while max(sum(p) for p in pieces) > mbl:
            k += 1
            body = seg[1:] if (gap and len(sec) > 2) else seg
            kk = max(1, min(k, len(body)))
            cuts = [(i * len(body)) // kk for i in range(kk + 1)]
            pieces = [body[cuts[i]:cuts[i + 1]] for i in range(kk)]
            if gap and len(sec) > 2:
                pieces[0] = [seg[0]] + pieces[0]
            if k > 10 or kk < k:
                break
        out += [sum(p) for p in pieces]
    return sorted(out)


def forced_max_branch_len(path, viol):
    """dense tracings in which every traced segment is far below max_branch_len, so the file is splittable:
    the total length must not depend on max_branch_len.  (Before the repairs of F25 / F63, _split_branch_equally cut by
    NUMBER of points: the first piece of a stem of a single-point soma could be [soma, first neurite point] (traced
    length 0 -> 1 um) and the first piece of the root section a single point (-> 2 r); these are the directed cases.)"""
    import warnings
    import numpy as np
    import jaxley as jx
    import swcref
    files = {
        "stem of a single-point soma, 5 points 10 um apart, max_branch_len=25":
            ([(1, 1, 0.0, 0.0, 0.0, 2.0, -1), (2, 3, 2.0, 0.0, 0.0, 1.0, 1), (3, 3, 12.0, 0.0, 0.0, 1.0, 2), (4, 3, 22.0, 0.0, 0.0, 1.0, 3),
              (5, 3, 32.0, 0.0, 0.0, 1.0, 4), (6, 3, 42.0, 0.0, 0.0, 1.0, 5)], 25.0),
        "3-point soma (8 um steps) with two dendrites, max_branch_len=10":
            ([(1, 1, 0.0, 0.0, 0.0, 3.0, -1), (2, 1, 8.0, 0.0, 0.0, 3.0, 1), (3, 1, 16.0, 0.0, 0.0, 3.0, 2), (4, 3, 19.0, 0.0, 0.0, 0.5, 3),
              (5, 3, 24.0, 0.0, 0.0, 0.5, 4), (6, 4, 16.0, 3.0, 0.0, 0.5, 3), (7, 4, 16.0, 8.0, 0.0, 0.5, 6)], 10.0),
        "stem with 9 points 5 um apart, max_branch_len=25 (first piece has three points: splittable without a degenerate piece)":
            ([(1, 1, 0.0, 0.0, 0.0, 2.0, -1)] + [(k + 2, 3, 2.0 + 5.0 * k, 0.0, 0.0, 1.0, k + 1) for k in range(9)], 25.0),
    }
    n = 0
    for name, (rows, mbl) in files.items():
        swcref.write_swc([list(r) for r in rows], path)
        with warnings.catch_warnings():
            warnings.simplefilter("ignore")
            try:
                c0 = jx.read_swc(path, ncomp=1)
                c1 = jx.read_swc(path, ncomp=1, max_branch_len=mbl)
            except Exception as ex:
                viol.append({"kind": "read_swc with max_branch_len raised on a dense tracing", "file": name, "error": repr(ex)[:300], "finding_class": None})
                continue
        n += 1
        t0, t1 = float(c0.nodes["length"].sum()), float(c1.nodes["length"].sum())
        if abs(t0 - t1) > 1e-9:
            soma_xyz = np.asarray(rows[0][2:5])
            single_point_soma = rows[1][1] != 1
            degenerate = False
            for b in range(len(c1.xyzr)):
                pts = c1.xyzr[b][:, :3]
                if len(pts) == 1 and not (single_point_soma and b == 0):
                    degenerate = True                # a one-point piece that is not the single-point soma
                if single_point_soma and len(pts) == 2 and np.allclose(pts[0], soma_xyz):
                    degenerate = True                # [soma, first neurite point]
            viol.append({"kind": "max_branch_len splitting changed the total cable length of a dense tracing", "file": name, "swc_rows": [list(r) for r in rows],
                         "max_branch_len": mbl, "total_without": t0, "total_with": t1,
                         "branch_lengths_with": [float(x) for x in c1.nodes["length"]],
                         "degenerate_piece": degenerate, "finding_class": None})
    return n


def run(ctx):
    import os
    import warnings
    import numpy as np
    import jaxley as jx
    import simlib
    import swcref
    import coqeval
    from jaxley.io.swc import swc_to_jaxley
    from simlib import quiet
    warnings.simplefilter("ignore")
    rng = ctx.rng
    viol, samples, distinct = [], [], set()
    evals = 0
    coq_jobs = []
    loop_jobs = []
    n_outside_theorem = 0
    n_split_oracle = 0
    nloop = 0
    work = os.path.join(os.path.dirname(os.path.dirname(os.path.dirname(os.path.abspath(__file__)))), ".work")
    os.makedirs(work, exist_ok=True)
    path = os.path.join(work, f"gen_{os.getpid()}.swc")
    ntrees = ctx.budget(60, 600)
    for ti in range(ntrees):
        dense = ti % 3 == 2
        rows = swcref.random_swc(rng, single_point_soma=(ti % 2 == 0) if ti < 20 else None, max_points=rng.choice([12, 25, 40]) if not dense else 60, dense=dense)
        swcref.write_swc(rows, path)
        n = rng.choice([1, 2, 3, 4])
        mr = rng.choice([None, None, 0.6])
        ref = swcref.full_reference(rows, n, mr)
        case = {"swc_rows": [[int(r[0]), int(r[1]), r[2], r[3], r[4], r[5], int(r[6])] for r in rows], "ncomp": n, "min_radius": mr}
        distinct.add(tuple((int(r[1]), int(r[6])) for r in rows))
        try:
            parents, pathlengths, radius_fns, types, coords = swc_to_jaxley(path)
            with quiet():
                cell = jx.read_swc(path, ncomp=n, min_radius=mr)
            evals += 1
        except Exception as ex:
            viol.append(dict(case, kind="read_swc raised on a well-formed file", error=repr(ex)[:300]))
            continue
        par = [int(p) for p in cell.comb_parents]
        nb = len(par)
        L = [float(cell.branch(b).nodes["length"].sum()) for b in range(nb)]
        R = [cell.branch(b).nodes["radius"].tolist() for b in range(nb)]
        if len(samples) < 2:
            samples.append(dict(case, parents=par, lengths=L))
        if par != ref["parents"]:
            viol.append(dict(case, kind="branches / connectivity differ from the sections of the traced tree", got=par, expected=ref["parents"]))
            continue
        if [int(x) for x in types] != ref["types"]:
            viol.append(dict(case, kind="branch types differ from the SWC types of the sections", got=[int(x) for x in types], expected=ref["types"]))
        if not np.allclose(L, ref["lengths"], rtol=1e-9, atol=1e-9):
            viol.append(dict(case, kind="branch length is not the traced path length of its section", got=L, expected=ref["lengths"]))
        for b in range(nb):
            if not np.allclose(R[b], ref["radii"][b], rtol=1e-7, atol=1e-9):
                viol.append(dict(case, kind="compartment radii are not the linear interpolation of the traced radii at the compartment centres",
                                 branch=b, got=R[b], expected=ref["radii"][b]))
                break
        # groups partition the branches by type
        want = {}
        for b, t in enumerate(ref["types"]):
            want.setdefault(NAMES.get(t, f"custom{t}"), []).append(b)
        got = {k: sorted(set(int(x) for x in cell.nodes.loc[v, "global_branch_index"])) for k, v in cell.groups.items()}
        if got != want:
            viol.append(dict(case, kind="type groups do not partition the branches by SWC type", got=got, expected=want))
        # total length and connectivity do not depend on ncomp
        n2 = n + 1
        with quiet():
            cell2 = jx.read_swc(path, ncomp=n2, min_radius=mr)
        evals += 1
        L2 = [float(cell2.branch(b).nodes["length"].sum()) for b in range(len(cell2.comb_parents))]
        if [int(p) for p in cell2.comb_parents] != par or not np.allclose(L, L2, rtol=1e-9):
            viol.append(dict(case, kind="total length / connectivity depend on ncomp"))
        # max_branch_len: total length kept, no piece longer than the bound
        mbl = rng.choice([15.0, 30.0])
        need = [(len(sec), math.ceil(l / mbl)) for sec, l in zip(ref["sections"], ref["lengths"]) if l > mbl]
        coarse = any(npts // k < 2 for npts, kmax in need for k in range(2, kmax + 2))
        try:
            with quiet():
                cell3 = jx.read_swc(path, ncomp=1, max_branch_len=mbl, min_radius=mr)
            evals += 1
            L3 = [float(cell3.branch(b).nodes["length"].sum()) for b in range(len(cell3.comb_parents))]
            if abs(sum(L3) - sum(L)) > 1e-6 * max(1.0, sum(L)):
                viol.append(dict(case, kind="max_branch_len splitting changed the total length", max_branch_len=mbl, got=sum(L3), expected=sum(L)))
            sps3 = bool(swcref.sections(rows)[3])
            base3 = expected_split_lengths(rows, ref["sections"], sps3, float("inf"))
            want3 = expected_split_lengths(rows, ref["sections"], sps3, mbl)
            # (the oracle is used only where its unsplit lengths agree with the reference lengths of tools/swcref.py)
            consistent3 = len(base3) == len(L) and max(abs(a - b) for a, b in zip(base3, sorted(L))) <= 1e-6 * max(1.0, max(L))
            n_split_oracle += int(consistent3)
            if consistent3 and (len(want3) != len(L3) or max(abs(a - b) for a, b in zip(sorted(L3), want3)) > 1e-6 * max(1.0, max(want3))):
                viol.append(dict(case, kind="the pieces produced by max_branch_len differ from the splitting rule (cut at the points i*segments//k, smallest k <= 11 with no piece longer than the bound)",
                                 max_branch_len=mbl, got=sorted(L3), expected=want3))
        except Exception as ex:
            viol.append(dict(case, kind="read_swc with max_branch_len raised", max_branch_len=mbl, error=repr(ex)[:300], coarse=coarse, finding_class=None))
        # the line-by-line model of the reader's sectioning loop (Model/SwcRead.v; C16_sectioning_loop_correct
        # is a theorem about it) must produce exactly what the code's loop produces; the generated
        # file must satisfy the theorem's well-formedness hypotheses
        if ti < ctx.budget(25, 200):
            try:
                from jaxley.utils.cell_utils import _build_parents, _split_into_branches_and_sort
                content = np.asarray(rows, dtype=float)
                sps_ = bool(content[0, 1] == 1 and content[1, 1] != 1)
                bs_, ts_ = _split_into_branches_and_sort(content, None, sps_)
                ps_ = _build_parents(bs_)
                real_loop = ([[int(x) for x in b_] for b_ in bs_], [int(x) for x in ts_], [None if int(p_) == -1 else int(p_) for p_ in ps_])
                rr = "[" + "; ".join(f"({int(r[0])}, {int(r[1])}, {max(int(r[6]), 0)})" for r in rows) + "]"
                loop_jobs.append((f"read_sections {rr} {'true' if sps_ else 'false'}", real_loop, case))
                ids_ = [int(r[0]) for r in rows]
                par_ = {int(r[0]): int(r[6]) for r in rows}
                kids_ = {}
                for c_, p_ in par_.items():
                    kids_.setdefault(p_, []).append(c_)
                wf_ok = ids_ == list(range(1, len(rows) + 1)) and par_[1] == -1 and all(1 <= par_[c_] < c_ for c_ in ids_[1:]) \
                    and all(len(k_) != 1 or k_[0] == p_ + 1 for p_, k_ in kids_.items() if p_ >= 1)
                if not wf_ok:
                    # a valid file the theorem does not speak about (e.g. a neurite hanging on the first soma point and
                    # written after another neurite: an only child that is not the next line); the model-vs-code and
                    # reference comparisons still cover it, the theorem's coverage is reported in the evidence
                    n_outside_theorem += 1
            except Exception as ex:
                viol.append(dict(case, kind="the reader's sectioning loop raised", error=repr(ex)[:300]))
        # the proved checker on what the reader produced (sections recovered from the xyzr coordinates)
        if ti < ctx.budget(25, 200):
            t = "[" + "; ".join(f"({int(r[1])}, {max(int(r[6]), 0)})" for r in rows) + "]"
            impl_secs = _sections_from_impl(path)
            coq_jobs.append((f"(check_sections {t} {_coq_secs(impl_secs, rows)}, check_parents {_coq_plain(impl_secs)} {_coq_parents(parents, impl_secs)})", case))
    try:
        os.remove(path)
    except OSError:
        pass
    try:
        import ast
        louts = coqeval.coq_eval(["Swc", "SwcRead"], [j[0] for j in loop_jobs], prelude="Close Scope Q_scope. Open Scope nat_scope.")
        for (expr, real_loop, case), o in zip(loop_jobs, louts):
            bs_m, (ts_m, ps_m) = ast.literal_eval(o.replace(";", ",").replace("Some ", ""))
            model_loop = ([list(b_) for b_ in bs_m], list(ts_m), list(ps_m))
            nloop += 1
            if model_loop != real_loop:
                viol.append(dict(case, kind="the reader's sectioning loop differs from its model Model/SwcRead.v (sections, types or parents)",
                                 code=repr(real_loop)[:500], model=repr(model_loop)[:500]))
    except Exception as ex:
        viol.append({"kind": "the SwcRead correspondence could not be evaluated", "error": repr(ex)[:500], "no_failing_input_found": True})
    try:
        outs = coqeval.coq_eval(["Swc"], [j[0] for j in coq_jobs], prelude="Close Scope Q_scope. Open Scope nat_scope.")
        for (expr, case), o in zip(coq_jobs, outs):
            if o.replace(" ", "") != "(true,true)":
                viol.append(dict(case, kind="the proved checker (Model/Swc.v) rejects the reader's sectioning / connectivity", checker_output=o))
    except Exception as ex:
        viol.append({"kind": "checker could not be evaluated", "error": repr(ex)[:800], "no_failing_input_found": True})
    evals += forced_max_branch_len(path, viol)
    # Model/SwcSplit.v against _split_branch_equally (pure function of the point list and the number of pieces)
    try:
        from jaxley.utils.cell_utils import _split_branch_equally
        sp_jobs, sp_exprs = [], []
        for _k in range(ctx.budget(20, 150)):
            npts = rng.randint(1, 30)
            npieces = rng.randint(1, 12)            # also more pieces than traced segments
            pts = list(range(1, npts + 1))
            real = [[int(x) for x in p] for p in _split_branch_equally(np.asarray(pts), npieces)]
            sp_jobs.append((pts, npieces, real))
            sp_exprs.append(f"split_equally [{'; '.join(str(x) for x in pts)}] {npieces}")
        import ast
        for (pts, npieces, real), o in zip(sp_jobs, coqeval.coq_eval(["SwcSplit"], sp_exprs, prelude="Close Scope Q_scope. Open Scope nat_scope.", shard=25)):
            model = [list(x) for x in ast.literal_eval(o.replace("%nat", "").replace(";", ","))]
            evals += 1
            if model != real:
                viol.append({"kind": "_split_branch_equally differs from Model/SwcSplit.v", "points": len(pts), "pieces": npieces, "code": real, "model": model, "no_failing_input_found": True})
    except Exception as ex:
        viol.append({"kind": "split correspondence could not be evaluated", "error": repr(ex)[:400], "no_failing_input_found": True})
    import regress
    evals += regress.run("C16", viol)
    for v in viol:
        v.setdefault("finding_class", None)
    seen, out = set(), []
    for v in viol:
        fc = v.get("finding_class")
        if fc and fc in seen:
            continue
        if fc:
            seen.add(fc)
        out.append(v)
    viol = out
    return {"evaluations": evals, "distinct_nontrivial": len(distinct),
            "rule": "random depth-first SWC trees (single- and multi-point somata, neurites starting at the root or at the soma end, type changes at branch points, 12-40 points), ncomp in 1..4, optional min_radius: sections/connectivity, branch types, lengths, radii at compartment centres and type groups against tools/swcref.py; independence of ncomp; max_branch_len keeps the total length; the reader's own sections run through the proved checker; distinct by (types, parents) of the file",
            "samples": samples, "violations": viol[:20], "traces_validated_against_impl": len(coq_jobs), "sectioning_loops_compared_with_model": nloop, "files_outside_the_hypotheses_of_C16_sectioning_loop_correct": n_outside_theorem, "files_checked_against_the_split_oracle": n_split_oracle}


def _sections_from_impl(path):
    """the reader's own sectioning (before sorting is irrelevant: sorted output)."""
    import numpy as np
    from jaxley.utils.cell_utils import _split_into_branches_and_sort
    content = np.loadtxt(path)
    types = content[:, 1]
    sps = types[0] == 1 and types[1] != 1
    branches, _ = _split_into_branches_and_sort(content, max_branch_len=None, is_single_point_soma=sps, sort=True)
    return [[int(x) for x in b] for b in branches]


def _coq_secs(secs, rows):
    # a section is "rooted" (no anchor) iff it starts at the root and the root is one of its own
    # points: the soma-only section [1], or a section that continues from the root
    par = {int(r[0]): int(r[6]) for r in rows}
    typ = {int(r[0]): int(r[1]) for r in rows}
    kids1 = [c for c, p in par.items() if p == 1]
    root_continues = len(kids1) == 1 and typ[kids1[0]] == typ[1]
    out = []
    for s in secs:
        rooted = s[0] == 1 and (len(s) == 1 or (root_continues and s[1] == kids1[0]))
        out.append("([" + "; ".join(map(str, s)) + "], " + ("true" if rooted else "false") + ")")
    return "[" + "; ".join(out) + "]"


def _coq_plain(secs):
    return "[" + "; ".join("[" + "; ".join(map(str, s)) + "]" for s in secs) + "]"


def _coq_parents(parents, secs):
    ps = [int(p) for p in parents]
    if len(ps) == len(secs) + 1:        # padded root branch in front
        ps = [p - 1 for p in ps[1:]]
    return "[" + "; ".join(("Some " + str(p)) if p >= 0 else "None" for p in ps) + "]"


def replay(ctx, case):
    return {"violated": False, "note": "re-run the check with the same VERIF_SEED"}
