"""C04 — built-in mechanisms implement their published kinetics and currents."""
import inspect
import math

PROP_FILES = ["Props/C04.v"]
NEEDS_GEN = True
TRUSTED = ["tools/jaxpr2coq.py + tools/gen_layer_g.py (translator, validated each run)",
           "Spec/Published.v and tools/published.py: my transcription of the published equations (the papers cannot be consulted offline)",
           "Interval tactic: PrimFloat/Uint63 primitives and their *_spec axioms (C04_CaT_tau_u_refuted only)"]
ASSUMPTIONS = ["equalities are over the reals; the tiny deviations inside the clipped regime of save_exp (< 1e-7 in every rate except CaT tau_u, known finding F15) are bounded by the direct predicate, not by a theorem"]


def mechs():
    from jaxley.channels import HH, Leak, Na, K, Km, CaL, CaT
    return [HH, Leak, Na, K, Km, CaL, CaT]


def close(a, b, atol):
    return math.isfinite(a) and math.isfinite(b) and abs(a - b) <= atol + 1e-9 * max(abs(a), abs(b))


def sample_v(rng, params):
    import numpy as np
    vt = params.get("vt", -60.0)
    vx = params.get("vx", 2.0)
    sing = [-40.0, -55.0, vt + 13, vt + 40, vt + 15, -27.0, -150.0, 100.0, -20 - vx, -13.2 - vx, -1 - vx]
    r = rng.random()
    if r < 0.3:
        x = rng.choice(sing)
        for _ in range(rng.choice([0, 0, 1, 2])):
            x = float(np.nextafter(x, rng.choice([-math.inf, math.inf])))
        return min(100.0, max(-150.0, x))
    if r < 0.4:
        return min(100.0, max(-150.0, rng.choice(sing) + rng.choice([-1, 1]) * 10 ** rng.uniform(-8, -3)))
    return rng.uniform(-150, 100)


def run(ctx):
    import published as P
    from jaxley.synapses import IonotropicSynapse, TestSynapse, TanhRateSynapse
    rng = ctx.rng
    n = ctx.budget(80, 1500) * (3 if not ctx.proof_ok else 1)
    viol, samples, distinct = [], [], set()
    evals = 0
    for cls in mechs():
        cname = cls.__name__
        # defaults, key by key
        ch = cls()
        dp, ds = P.DEFAULTS[cname]
        got_p = {(k[len(cname) + 1:] if k.startswith(cname + "_") else k): float(v) for k, v in ch.channel_params.items()}
        got_s = {(k[len(cname) + 1:] if k.startswith(cname + "_") else k): float(v) for k, v in ch.channel_states.items()}
        evals += 1
        if got_p != dp or got_s != ds:
            viol.append({"kind": "default parameters/states differ from the documented ones", "mechanism": cname,
                         "got": [got_p, got_s], "documented": [dp, ds]})
        for i in range(n):
            ch = cls()
            prefix = rng.choice([None, None, "x", "Na2", "my_chan"])
            old_p, old_s = dict(ch.channel_params), dict(ch.channel_states)
            if prefix:
                ch.change_name(prefix)
                # names only: every own key re-prefixed, global keys and all values untouched
                exp_p = {(prefix + k[len(cname):] if k.startswith(cname + "_") else k): v for k, v in old_p.items()}
                exp_s = {(prefix + k[len(cname):] if k.startswith(cname + "_") else k): v for k, v in old_s.items()}
                if ch.channel_params != exp_p or ch.channel_states != exp_s or list(ch.channel_params) != list(exp_p):
                    viol.append({"kind": "change_name altered more than the names", "mechanism": cname, "prefix": prefix,
                                 "params": ch.channel_params, "expected": exp_p})
                    continue
            name = ch._name
            short = lambda k: k[len(name) + 1:] if k.startswith(name + "_") else k
            params = {}
            for k, d in ch.channel_params.items():
                s = short(k)
                params[k] = (rng.choice([-60.0, -63.0, rng.uniform(-75, -45)]) if s == "vt" else
                             rng.choice([2.0, rng.uniform(-8, 8)]) if s == "vx" else
                             rng.choice([4000.0, 10 ** rng.uniform(1, 4)]) if s == "taumax" else
                             rng.uniform(-100, 130) if s.startswith("e") else d * 10 ** rng.uniform(-1, 1))
            sp = {short(k): v for k, v in params.items()}
            v = sample_v(rng, sp)
            states = {k: rng.random() for k in ch.channel_states}
            ss = {short(k): x for k, x in states.items()}
            case = {"mechanism": cname, "name": name, "v": v, "params": params, "states": states}
            evals += 1
            # rates
            for k in ch.channel_states:
                s = short(k)
                g = getattr(cls, s + "_gate")
                args = [v if a == "v" else sp[a] for a in inspect.signature(g).parameters]
                try:
                    a, b = (float(x) for x in g(*args))
                except Exception as ex:
                    viol.append(dict(case, kind="gate raised", error=repr(ex)))
                    continue
                pa, pb = P.RATES[(cname, s)](v, sp)
                distinct.add((cname, s, v))
                # rates: absolute slack 1e-7 (1/ms) for the clipped tails / guarded singularities
                if not (close(a, pa, 2e-6 * abs(pa) + 1e-7) and close(b, pb, 2e-6 * abs(pb) + 1e-7)):
                    fc = None
                    if cname == "CaT" and s == "u" and close(a, pa, 1e-7) and v + sp["vx"] > -20.0:
                        fc = "CaT_tau_u_clip_plateau"
                    viol.append(dict(case, kind="rate function differs from the published equation", gate=s,
                                     got=[a, b], published=[pa, pb], finding_class=fc))
            # current
            try:
                i_got = float(ch.compute_current(dict(states), v, params))
            except Exception as ex:
                viol.append(dict(case, kind="compute_current raised", error=repr(ex)))
                continue
            i_pub = P.CURRENTS[cname](ss, v, sp)
            if not close(i_got, i_pub, 1e-15):
                viol.append(dict(case, kind="current differs from the published equation", got=i_got, published=i_pub))
            if len(samples) < 3 and states:
                samples.append(dict(case, current=i_got))
            # renamed dynamics identical to the default-named channel
            if prefix and ch.channel_states:
                ref = cls()
                dt = 10 ** rng.uniform(-3, 1)
                rp = {k: params[(prefix + k[len(cname):]) if k.startswith(cname + "_") else k] for k in ref.channel_params}
                rs = {k: states[(prefix + k[len(cname):]) if k.startswith(cname + "_") else k] for k in ref.channel_states}
                u1 = {short(k): float(x) for k, x in ch.update_states(dict(states), dt, v, params).items()}
                u2 = {k[len(cname) + 1:]: float(x) for k, x in ref.update_states(rs, dt, v, rp).items()}
                if u1 != u2:
                    viol.append(dict(case, kind="renaming changed the dynamics", renamed=u1, original=u2))
                # ... and init_state: same values, under the renamed keys
                try:
                    i1 = {k: float(x) for k, x in ch.init_state(dict(states), v, params, dt).items()}
                    i2 = {k: float(x) for k, x in ref.init_state(rs, v, rp, dt).items()}
                    want = {((prefix + k[len(cname):]) if k.startswith(cname + "_") else k): x for k, x in i2.items()}
                    if set(i1) != set(want) or any(i1[k] != want[k] for k in want):
                        viol.append(dict(case, kind="renaming changed init_state (keys or values)", renamed=i1, expected=want))
                except Exception as ex:
                    viol.append(dict(case, kind="init_state of a renamed channel raised", error=repr(ex)[:300]))
    # synapses
    for cls in (IonotropicSynapse, TestSynapse, TanhRateSynapse):
        cname = cls.__name__
        sy = cls()
        dp, ds = P.SYN_DEFAULTS[cname]
        got_p = {k[len(cname) + 1:]: float(v) for k, v in sy.synapse_params.items()}
        got_s = {k[len(cname) + 1:]: float(v) for k, v in sy.synapse_states.items()}
        evals += 1
        if got_p != dp or got_s != ds:
            viol.append({"kind": "default parameters/states differ from the documented ones", "mechanism": cname,
                         "got": [got_p, got_s], "documented": [dp, ds]})
        for i in range(n // 2):
            sy = cls()
            prefix = rng.choice([None, "syn2"])
            if prefix:
                sy.change_name(prefix)
            name = sy._name
            params = {k: (d * 10 ** rng.uniform(-1, 1) if d != 0 else rng.uniform(-80, 20)) for k, d in sy.synapse_params.items()}
            sp = {k[len(name) + 1:]: v for k, v in params.items()}
            states = {k: rng.random() for k in sy.synapse_states}
            vpre, vpost = rng.uniform(-150, 100), rng.uniform(-150, 100)
            evals += 1
            i_got = float(sy.compute_current(dict(states), vpre, vpost, params))
            if cname == "IonotropicSynapse":
                i_pub = sp["gS"] * states[name + "_s"] * (vpost - sp["e_syn"])
            elif cname == "TestSynapse":
                i_pub = sp["gC"] * states[name + "_c"] * vpost
            else:
                i_pub = -sp["gS"] * math.tanh((vpre - sp["x_offset"]) * sp["slope"])
            if not close(i_got, i_pub, 1e-15):
                viol.append({"kind": "synaptic current differs from the published equation", "mechanism": cname,
                             "v_pre": vpre, "v_post": vpost, "params": params, "states": states, "got": i_got, "published": i_pub})
            if states:
                dt = 10 ** rng.uniform(-3, 1)
                new = float(list(sy.update_states(dict(states), dt, vpre, vpost, params).values())[0])
                sinf = P.syn_sinf(vpre)
                tau = (1 - sinf) / sp.get("k_minus", 0.025)
                x = list(states.values())[0]
                want = sinf + (x - sinf) * math.exp(-dt / tau)
                distinct.add((cname, vpre, dt))
                if not close(new, want, 1e-9):
                    viol.append({"kind": "synaptic state update differs from the published kinetics", "mechanism": cname,
                                 "v_pre": vpre, "dt": dt, "params": params, "states": states, "got": new, "published": want})
    for v in viol:
        v.setdefault("finding_class", None)
    # keep one representative per known-finding class, all others
    out, seen = [], set()
    for v in viol:
        fc = v.get("finding_class")
        if fc:
            if fc in seen:
                continue
            seen.add(fc)
        out.append(v)
    return {"evaluations": evals, "distinct_nontrivial": len(distinct),
            "rule": "every rate function, current, default dictionary and change_name() of every built-in mechanism against the transcribed published equations at v in [-150,100] incl. singular/clipping voltages +-ulps, random positive conductances, reversal/shift parameters and prefixes; distinct by (mechanism, gate, v)",
            "samples": samples, "violations": out[:20]}


def replay(ctx, case):
    import published as P
    cls = {c.__name__: c for c in mechs()}.get(case.get("mechanism"))
    if cls is None or "gate" not in case:
        return {"violated": False, "note": "re-run the check with the same VERIF_SEED"}
    name = case["name"]
    sp = {(k[len(name) + 1:] if k.startswith(name + "_") else k): v for k, v in case["params"].items()}
    g = getattr(cls, case["gate"] + "_gate")
    args = [case["v"] if a == "v" else sp[a] for a in inspect.signature(g).parameters]
    a, b = (float(x) for x in g(*args))
    pa, pb = P.RATES[(cls.__name__, case["gate"])](case["v"], sp)
    bad = not (close(a, pa, 2e-6 * abs(pa) + 1e-7) and close(b, pb, 2e-6 * abs(pb) + 1e-7))
    return {"violated": bad, "got": [a, b], "published": [pa, pb]}
