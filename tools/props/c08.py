"""C08 — recordings and inputs land on the right row, compartment and time step."""
import copy
import math

PROP_FILES = ["Props/C08.v"]
NEEDS_GEN = False
TRUSTED = ["Model/Index.v (recording table, per-type synapse arrays, scatter-add, t_max) and Model/Scan.v are hand-written; compared with the implementation on every run",
           "tools/cablelib.py exact reference for the time course of stimulated passive cells"]
ASSUMPTIONS = ["the for-all over interleavings is proved of the model; the code is tied to it by sampled networks with interleaved synapse types and sampled record/stimulate/clamp sequences"]


def build_net(rng):
    import jaxley as jx
    import simlib
    from jaxley.connect import connect
    from jaxley.channels import Leak
    from jaxley.synapses import IonotropicSynapse, TestSynapse
    ncells = rng.randint(2, 3)
    cells = []
    for _ in range(ncells):
        nb = rng.randint(1, 2)
        cells.append(simlib.build_cell(rng, simlib.rand_parents(rng, nb), [rng.randint(1, 2) for _ in range(nb)], hetero=False))
    with simlib.quiet():
        net = jx.Network(cells)
        net.insert(Leak())
        n = len(net.nodes)
        for k in range(n):
            net.select(nodes=[k]).set("v", -70.0 + k)       # every compartment identifies itself
        types = []
        ne = rng.randint(3, 5)
        # interleaved synapse types: some synapse's index within its type differs from its global
        # edge index while the global index is still inside the per-type array (e.g. [A, B, B])
        while True:
            tys = [rng.choice([IonotropicSynapse, TestSynapse]) for _ in range(ne)]
            names = [t.__name__ for t in tys]
            ok = any(names[:e].count(names[e]) != e and e < names.count(names[e]) for e in range(ne))
            if ok:
                break
        for e in range(ne):
            pre, post = rng.sample(range(n), 2) if n > 1 else (0, 0)
            syn = tys[e]
            types.append(syn.__name__)
            connect(net.select(nodes=[pre]), net.select(nodes=[post]), syn())
        for e in range(ne):
            key = "IonotropicSynapse_s" if types[e] == "IonotropicSynapse" else "TestSynapse_c"
            net.select(edges=[e]).set(key, 0.05 * (e + 1))   # every synapse identifies itself
    return net, types


def run(ctx):
    import numpy as np
    import jax.numpy as jnp
    import jaxley as jx
    import simlib
    import cablelib
    import coqeval
    from simlib import quiet
    from fractions import Fraction as Fr
    rng = ctx.rng
    viol, samples, distinct = [], [], set()
    evals = 0
    coq_jobs = []

    # ---- A. rows: order of record() calls, identity of the recorded compartment / synapse
    for ci in range(ctx.budget(6, 40)):
        try:
            net, types = build_net(rng)
        except Exception as ex:
            viol.append({"kind": "network construction raised", "error": repr(ex)[:300]})
            continue
        n, ne = len(net.nodes), len(types)
        expected = []          # (kind, index, state, initial value)
        calls = []
        state_code = {}
        for _ in range(rng.randint(2, 5)):
            what = rng.choice(["v", "v", "syn", "syn", "isyn"])
            if what == "v":
                rows = sorted(rng.sample(range(n), rng.randint(1, min(3, n))))
                calls.append(("select(nodes=%s).record('v')" % rows))
                with quiet():
                    net.select(nodes=rows).record("v")
                new = [("node", r, "v", -70.0 + r) for r in rows]
            else:
                ty = rng.choice(sorted(set(types)))
                st = ("IonotropicSynapse_s" if ty == "IonotropicSynapse" else "TestSynapse_c") if what == "syn" else "i_" + ty
                es = [e for e in range(ne) if types[e] == ty]
                pick = sorted(rng.sample(es, rng.randint(1, len(es))))
                whole = rng.random() < 0.4
                calls.append(f"{'net' if whole else 'select(edges=%s)' % pick}.record('{st}')")
                with quiet():
                    (net if whole else net.select(edges=pick)).record(st)
                new = [("edge", e, st, 0.05 * (e + 1) if what == "syn" else None) for e in (es if whole else pick)]
            for r in new:
                if (r[1], r[2]) not in [(q[1], q[2]) for q in expected]:
                    expected.append(r)
        for e in range(ne):
            st = "IonotropicSynapse_s" if types[e] == "IonotropicSynapse" else "TestSynapse_c"
            calls.append(f"select(edges=[{e}]).record('{st}')")
            with quiet():
                net.select(edges=[e]).record(st)
            if (e, st) not in [(q[1], q[2]) for q in expected]:
                expected.append(("edge", e, st, 0.05 * (e + 1)))
        case = {"ncomp": n, "synapse_types": types, "calls": calls}
        distinct.add((n, tuple(types), tuple(calls)))
        try:
            with quiet():
                out = np.asarray(jx.integrate(net, t_max=0.05, delta_t=0.025, voltage_solver="jax.sparse"))
            evals += 1
        except Exception as ex:
            viol.append(dict(case, kind="integrate raised", error=repr(ex)[:300]))
            continue
        recs = [(int(i), str(s)) for i, s in zip(net.recordings.rec_index, net.recordings.state)]
        if len(samples) < 2:
            samples.append(dict(case, recordings=recs))
        if recs != [(r[1], r[2]) for r in expected]:
            viol.append(dict(case, kind="recordings table is not the requested rows in call order", got=recs,
                             expected=[(r[1], r[2]) for r in expected]))
            continue
        if out.shape[0] != len(expected):
            viol.append(dict(case, kind="integrate does not return one row per recording", rows=out.shape[0]))
            continue
        for k, r in enumerate(expected):
            if r[3] is not None and abs(out[k, 0] - r[3]) > 1e-12:
                viol.append(dict(case, kind="row does not report the state of the requested compartment / synapse",
                                 row=k, requested=list(r[:3]), column0=float(out[k, 0]), expected_initial_value=r[3]))
        # the recording table against Model/Index.record (states coded as numbers)
        for s in [r[2] for r in expected]:
            state_code.setdefault(s, len(state_code))

    # ---- B. time: sample k acts in step k+1; charge; several stimuli add; t_max; data variants
    for ci in range(ctx.budget(5, 30)):
        nb = rng.randint(1, 3)
        parents = simlib.rand_parents(rng, nb)
        counts = [rng.randint(1, 3) for _ in range(nb)]
        spec = simlib.rand_spec(rng, parents, counts)
        n = spec.n
        nst = rng.randint(3, 6)
        dt = rng.choice([0.025, 0.1])
        tgt = [rng.randrange(n), rng.randrange(n)]
        cur = [[simlib.dy(rng, -1, 1, 16) for _ in range(nst)] for _ in tgt]
        case = {"parents": parents, "counts": counts, "dt": dt, "targets": tgt, "currents": cur}
        distinct.add((tuple(parents), tuple(counts), tuple(tgt), nst))
        try:
            cell = simlib.cell_from_spec(spec)
            with quiet():
                for t, c in zip(tgt, cur):
                    cell.select(nodes=[t]).stimulate(jnp.asarray(c))
                out = np.asarray(jx.integrate(cell, delta_t=dt, voltage_solver="jaxley.thomas"))
            evals += 1
            # exact reference: step k+1 uses sample k of every stimulus (they add on a shared target)
            v = list(spec.v)
            ref = [v]
            for k in range(nst):
                i = [Fr(0)] * n
                for t, c in zip(tgt, cur):
                    i[t] += Fr(c[k])
                sp = cablelib.CellSpec(parents, counts, spec.r, spec.l, spec.ra, spec.cm, spec.g, spec.e, v, i)
                v = sp.step(dt, "bwd_euler")
                ref.append(v)
            ref = np.asarray([[float(x) for x in col] for col in ref]).T
            if out.shape != ref.shape or np.abs(out - ref).max() > 1e-8:
                viol.append(dict(case, kind="stimulus does not act in the right step / on the right compartment / with the right charge",
                                 maxdiff=float(np.abs(out - ref).max()) if out.shape == ref.shape else None, shape=list(out.shape)))
            # t_max shorter and longer than the stimulus
            for steps in (nst - 2, nst + 3):
                t_max = (steps - 1) * dt + dt / 2       # int(t_max // dt + 1) == steps
                with quiet():
                    o2 = np.asarray(jx.integrate(cell, delta_t=dt, t_max=t_max, voltage_solver="jaxley.thomas"))
                evals += 1
                exp_steps = int(t_max // dt + 1)
                v = list(spec.v)
                ref2 = [v]
                for k in range(exp_steps):
                    i = [Fr(0)] * n
                    for t, c in zip(tgt, cur):
                        if k < nst:
                            i[t] += Fr(c[k])
                    sp = cablelib.CellSpec(parents, counts, spec.r, spec.l, spec.ra, spec.cm, spec.g, spec.e, v, i)
                    v = sp.step(dt, "bwd_euler")
                    ref2.append(v)
                ref2 = np.asarray([[float(x) for x in col] for col in ref2]).T
                if o2.shape != ref2.shape or np.abs(o2 - ref2).max() > 1e-8:
                    viol.append(dict(case, kind="t_max does not pad the stimulus with zeros / truncate it", t_max=t_max,
                                     got_shape=list(o2.shape), expected_shape=list(ref2.shape)))
            # data_stimulate == stimulate
            cell2 = simlib.cell_from_spec(spec)
            with quiet():
                ds = None
                for t, c in zip(tgt, cur):
                    ds = cell2.select(nodes=[t]).data_stimulate(jnp.asarray(c), ds)
                o3 = np.asarray(jx.integrate(cell2, delta_t=dt, data_stimuli=ds, voltage_solver="jaxley.thomas"))
            evals += 1
            if o3.shape != out.shape or np.abs(o3 - out).max() > 1e-12:
                viol.append(dict(case, kind="data_stimulate differs from stimulate"))
            # "whatever its geometry": the geometry of the target is supplied at integrate time
            # (trainable radius / data_set length with values that differ from the stored ones)
            t0 = tgt[0]
            fac = rng.choice([0.5, 1.5, 2.0])
            for how in ("trainable radius", "data_set length"):
                cell4 = simlib.cell_from_spec(spec)
                with quiet():
                    for t, c in zip(tgt, cur):
                        cell4.select(nodes=[t]).stimulate(jnp.asarray(c))
                    if how == "trainable radius":
                        cell4.select(nodes=[t0]).make_trainable("radius")
                        pr = cell4.get_parameters()
                        pr = [{k: v_ * fac for k, v_ in d_.items()} for d_ in pr]
                        o6 = np.asarray(jx.integrate(cell4, params=pr, delta_t=dt, voltage_solver="jaxley.thomas"))
                        r2, l2 = list(spec.r), list(spec.l)
                        r2[t0] = Fr(spec.r[t0]) * Fr(fac)
                    else:
                        ps_ = cell4.select(nodes=[t0]).data_set("length", float(spec.l[t0]) * fac, None)
                        o6 = np.asarray(jx.integrate(cell4, param_state=ps_, delta_t=dt, voltage_solver="jaxley.thomas"))
                        r2, l2 = list(spec.r), list(spec.l)
                        l2[t0] = Fr(spec.l[t0]) * Fr(fac)
                evals += 1
                v = list(spec.v)
                ref6 = [v]
                for k in range(nst):
                    i = [Fr(0)] * n
                    for t, c in zip(tgt, cur):
                        i[t] += Fr(c[k])
                    sp = cablelib.CellSpec(parents, counts, r2, l2, spec.ra, spec.cm, spec.g, spec.e, v, i)
                    v = sp.step(dt, "bwd_euler")
                    ref6.append(v)
                ref6 = np.asarray([[float(x) for x in col] for col in ref6]).T
                if o6.shape != ref6.shape or np.abs(o6 - ref6).max() > 1e-7:
                    viol.append(dict(case, kind="a stimulus does not add I*dt of charge when the geometry of its target is supplied at integrate time",
                                     how=how, factor=fac, maxdiff=float(np.abs(o6 - ref6).max()) if o6.shape == ref6.shape else None))
            # clamp: equals the clamp value at every returned time point after the first
            cell3 = simlib.cell_from_spec(spec)
            crow = rng.randrange(n)
            cval = [simlib.dy(rng, -80, -40, 4) for _ in range(nst)]
            with quiet():
                cell3.select(nodes=[crow]).clamp("v", jnp.asarray(cval))
                o4 = np.asarray(jx.integrate(cell3, delta_t=dt, voltage_solver="jaxley.thomas"))
                dc = simlib.cell_from_spec(spec)
                dcl = dc.select(nodes=[crow]).data_clamp("v", jnp.asarray(cval), None)
                o5 = np.asarray(jx.integrate(dc, delta_t=dt, data_clamps=dcl, voltage_solver="jaxley.thomas"))
            evals += 2
            if not np.array_equal(o4[crow, 1:], np.asarray(cval)):
                viol.append(dict(case, kind="clamped state differs from its clamp value", row=crow, got=o4[crow].tolist(), clamp=cval))
            if o5.shape != o4.shape or np.abs(o5 - o4).max() > 1e-12:
                viol.append(dict(case, kind="data_clamp differs from clamp"))
        except Exception as ex:
            import traceback
            viol.append(dict(case, kind="simulation raised", error=repr(ex)[:300], trace=traceback.format_exc()[-500:]))

    # ---- C. clamps of synaptic states with interleaved types
    for ci in range(ctx.budget(4, 20)):
        try:
            net, types = build_net(rng)
            ne = len(types)
            e = rng.randrange(ne)
            st = "IonotropicSynapse_s" if types[e] == "IonotropicSynapse" else "TestSynapse_c"
            with quiet():
                for ty in sorted(set(types)):
                    net.record("IonotropicSynapse_s" if ty == "IonotropicSynapse" else "TestSynapse_c")
                net.select(edges=[e]).clamp(st, jnp.asarray([0.9, 0.8]))
                out = np.asarray(jx.integrate(net, delta_t=0.025, voltage_solver="jax.sparse"))
            evals += 1
            recs = [(int(i), str(s)) for i, s in zip(net.recordings.rec_index, net.recordings.state)]
            case = {"synapse_types": types, "clamped_edge": e, "state": st}
            distinct.add(("clampsyn", tuple(types), e))
            for k, (idx, s) in enumerate(recs):
                if idx == e and s == st:
                    if not np.array_equal(out[k, 1:], [0.9, 0.8]):
                        viol.append(dict(case, kind="clamped synaptic state differs from its clamp value", got=out[k].tolist()))
                elif abs(out[k, 1] - 0.9) < 1e-12:
                    viol.append(dict(case, kind="a clamp of one synapse changed another synapse", other=[idx, s], got=out[k].tolist()))
            # the same clamp through a view that ALSO contains synapses of the other type: only the
            # view's synapses of the clamped type are clamped (clamp and data_clamp)
            net2, types2 = build_net(rng)
            ne2 = len(types2)
            want_type = rng.choice(sorted(set(types2)))
            st2 = "IonotropicSynapse_s" if want_type == "IonotropicSynapse" else "TestSynapse_c"
            view_edges = sorted(rng.sample(range(ne2), rng.randint(2, ne2)))
            if not any(types2[e_] == want_type for e_ in view_edges):
                view_edges = sorted(set(view_edges + [types2.index(want_type)]))
            want_edges = [e_ for e_ in view_edges if types2[e_] == want_type]
            for how in ("clamp", "data_clamp"):
                net3 = copy.deepcopy(net2)
                with quiet():
                    for e_ in range(ne2):
                        net3.select(edges=[e_]).record("IonotropicSynapse_s" if types2[e_] == "IonotropicSynapse" else "TestSynapse_c")
                    if how == "clamp":
                        net3.select(edges=view_edges).clamp(st2, jnp.asarray([0.9, 0.8]))
                        out3 = np.asarray(jx.integrate(net3, delta_t=0.025, voltage_solver="jax.sparse"))
                    else:
                        dcl = net3.select(edges=view_edges).data_clamp(st2, jnp.asarray([0.9, 0.8]), None)
                        out3 = np.asarray(jx.integrate(net3, delta_t=0.025, data_clamps=dcl, voltage_solver="jax.sparse"))
                evals += 1
                registered = sorted(int(i_) for i_ in (np.asarray(net3.external_inds[st2]).reshape(-1) if how == "clamp" else dcl[2].index))
                if registered != want_edges:
                    viol.append({"kind": f"{how} of a synaptic state through a view with several synapse types registers other synapses than the view's synapses of that type",
                                 "synapse_types": types2, "edges_in_view": view_edges, "state": st2, "registered": registered, "expected": want_edges})
                clamped = [e_ for e_ in range(ne2) if np.array_equal(out3[e_, 1:], [0.9, 0.8])]
                if clamped != want_edges:
                    viol.append({"kind": f"{how} of a synaptic state through a view with several synapse types does not clamp exactly the view's synapses of that type",
                                 "synapse_types": types2, "edges_in_view": view_edges, "state": st2, "clamped": clamped, "expected": want_edges})
        except Exception as ex:
            import traceback
            viol.append({"kind": "clamp of a synaptic state raised", "error": repr(ex)[:300], "trace": traceback.format_exc()[-400:]})

    # ---- D. Model/Index.v on sampled tables (record, rank_in_type/per_type, pad_or_truncate)
    for _ in range(ctx.budget(20, 200)):
        ne = rng.randint(1, 7)
        types = [rng.randint(0, 2) for _ in range(ne)]
        col = [rng.randint(10, 99) for _ in range(ne)]
        e = rng.randrange(ne)
        coq_jobs.append((f"nth (rank_in_type {coqeval.coq_list(types)} {e}) (per_type {coqeval.coq_list(types)} {coqeval.coq_list(col)} (nth {e} {coqeval.coq_list(types)} 0)) 0",
                         str(col[e])))
        L, nn = rng.randint(0, 6), rng.randint(0, 8)
        xs = [rng.randint(1, 9) for _ in range(L)]
        coq_jobs.append((f"pad_or_truncate {nn} 0 {coqeval.coq_list(xs)}", coqeval.coq_list((xs + [0] * nn)[:nn])))
    try:
        outs = coqeval.coq_eval(["Index"], [j[0] for j in coq_jobs], prelude="Close Scope Q_scope. Open Scope nat_scope.")
        for (expr, exp), o in zip(coq_jobs, outs):
            if o.replace(" ", "") != exp.replace(" ", ""):
                viol.append({"kind": "Model/Index.v disagrees with its reference semantics", "expr": expr, "model": o, "expected": exp,
                             "no_failing_input_found": True})
    except Exception as ex:
        viol.append({"kind": "model evaluation failed", "error": repr(ex)[:500], "no_failing_input_found": True})
    # Model/StepCurrent.v against stimulus._time_to_step (decimal delays and time steps, on and off the grid)
    try:
        from fractions import Fraction as Fr
        import coqeval as _ce
        from jaxley.stimulus import _time_to_step
        tjobs, texprs = [], []
        for _k in range(ctx.budget(30, 300)):
            dtq = rng.choice([Fr(25, 1000), Fr(1, 20), Fr(1, 10), Fr(1, 100), Fr(1, 8)])
            if rng.random() < 0.6:
                tq = rng.randint(0, 400) * dtq                      # on the grid
            else:
                tq = Fr(rng.randint(0, 40000), 1000)                # arbitrary millisecond decimals
            steps = tq / dtq
            if abs(steps - round(steps)) != 0 and abs(steps - round(steps)) < Fr(1, 1000):
                continue                                            # keep away from the 1e-6 tolerance boundary
            tjobs.append((float(tq), float(dtq), int(_time_to_step(float(tq), float(dtq)))))
            texprs.append(f"time_to_step ({tq.numerator} # {tq.denominator}) ({dtq.numerator} # {dtq.denominator})")
        for (tf, dtf, real), o in zip(tjobs, _ce.coq_eval(["StepCurrent"], texprs, prelude="Local Open Scope Q_scope.", shard=60)):
            evals += 1
            model = int(o.replace("%Z", "").strip("()"))
            if model != real:
                viol.append({"kind": "stimulus._time_to_step differs from Model/StepCurrent.v", "t": tf, "dt": dtf, "code": real, "model": model})
    except Exception as ex:
        import traceback
        viol.append({"kind": "step-current correspondence could not be evaluated", "error": repr(ex)[:300], "trace": traceback.format_exc()[-400:], "no_failing_input_found": True})
    import regress
    evals += regress.run("C08", viol)
    for v in viol:
        v.setdefault("finding_class", None)
    return {"evaluations": evals, "distinct_nontrivial": len(distinct),
            "rule": "A: networks with interleaved synapse types, every compartment/synapse with a distinct initial value, random sequences of record() calls on views (v, synaptic states and currents): table order and identity of each row; B: stimulated passive cells against the exact step-by-step reference (timing, charge, additivity), t_max shorter/longer, data_stimulate, target geometry supplied at integrate time (trainable radius, data_set length), clamp/data_clamp; C: clamps of synaptic states, also through views that contain synapses of several types (clamp and data_clamp); D: Model/Index.v on sampled tables; distinct by (network, calls)",
            "samples": samples, "violations": viol[:20], "traces_validated_against_impl": len(coq_jobs)}


def replay(ctx, case):
    return {"violated": False, "note": "re-run the check with the same VERIF_SEED"}
