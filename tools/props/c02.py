"""C02 — axial coupling conserves charge, is reciprocal and never overshoots."""
import itertools
import math

PROP_FILES = ["Props/C02.v"]
NEEDS_GEN = True
TRUSTED = ["Model/Cable.v is tied to Module.step by C01's correspondence; here the four identities are evaluated directly on the implementation's outputs in exact rational arithmetic",
           "tools/jaxpr2coq.py (translator, validated each run) for the traced conductance / stimulus formulas"]
ASSUMPTIONS = ["theorems are over the reals for the model; float64 round-off of the implementation is bounded by the tolerances of the direct predicates (1e-9 relative)"]

BACKENDS = ["jaxley.thomas", "jaxley.stone", "jax.sparse"]


def array_level_charge_cases(viol, rng, n_modules):
    """the conclusion of C02_array_level_charge_balance_of_every_cell/_network evaluated on the code at the level the
    theorems speak about: one call of step_voltage_implicit_with_jaxley_spsolve on random cells / networks with the
    conductances of compute_axial_conductances for random physical parameters, random voltages, vt >= 0, ct, dt:
    sum_c cm_c area_c [(out_c - v_c) + dt (vt_c out_c - ct_c)] = 0 up to round-off."""
    import math
    import numpy as np
    import jax.numpy as jnp
    import jaxley as jx
    import simlib
    import hineslib
    from fractions import Fraction as Fr
    from jaxley.utils.cell_utils import compute_axial_conductances
    comp = jx.Compartment()
    n = 0
    for k in range(n_modules):
        with simlib.quiet():
            if k % 3 == 2:
                cells = []
                for _ in range(rng.randint(2, 3)):
                    nb = rng.randint(1, 4)
                    cells.append((simlib.rand_parents(rng, nb) if nb > 1 else [-1], [2] * nb))
                m = jx.Network([jx.Cell([jx.Branch([comp] * c) for c in cs], parents=q) for q, cs in cells])
                case = {"network_of": cells}
            else:
                nb = rng.randint(1, 6)
                parents = simlib.rand_parents(rng, nb) if nb > 1 else [-1]
                counts = [rng.randint(1, 4) for _ in range(nb)]
                m = jx.Cell([jx.Branch([comp] * c) for c in counts], parents=parents)
                case = {"parents": parents, "counts": counts}
        st = hineslib.structure(m)
        nc = st["ncomp"]
        dy = lambda lo, hi, den=8: rng.randint(int(lo * den), int(hi * den)) / den
        P = {key: [dy(*rg) for _ in range(nc)] for key, rg in (("radius", (0.25, 4)), ("length", (2, 40)), ("axial_resistivity", (500, 8000)), ("capacitance", (0.5, 2)))}
        g = [float(x) for x in np.asarray(compute_axial_conductances(m._comp_edges, {k_: jnp.asarray(v_) for k_, v_ in P.items()}))]
        _, v0, vt, ct, dtq = hineslib.random_values(rng, st)
        W = [P["capacitance"][c] * 2 * math.pi * P["radius"][c] * P["length"][c] for c in range(nc)]
        for sv in ("jaxley.thomas", "jaxley.stone"):
            try:
                out = hineslib.run_real(m, st, g, v0, vt, ct, dtq, sv)
            except (AssertionError, NotImplementedError, ValueError):
                continue
            n += 1
            terms = [W[c] * ((out[c] - float(v0[c])) + float(dtq) * (float(vt[c]) * out[c] - float(ct[c]))) for c in range(nc)]
            total, scale = math.fsum(terms), max(1e-300, math.fsum(abs(t) for t in terms))
            if abs(total) > 1e-8 * scale + 1e-9:
                viol.append(dict(case, kind="one implicit step does not conserve charge at the array level (sum of cm*area*[(out - v) + dt (vt out - ct)] is not 0)",
                                 solver=sv, total=total, scale=scale, dt=float(dtq), radius=P["radius"], length=P["length"], axial_resistivity=P["axial_resistivity"], capacitance=P["capacitance"]))
    return n


def run(ctx):
    import numpy as np
    import simlib
    import cablelib
    from fractions import Fraction as Fr
    rng = ctx.rng
    viol, samples, distinct = [], [], set()
    evals = 0
    ncells = ctx.budget(8, 60) * (2 if not ctx.proof_ok else 1)

    def describe(spec, dt, **kw):
        d = {"parents": spec.parents, "counts": spec.counts, "dt": dt,
             "radius": [float(x) for x in spec.r], "length": [float(x) for x in spec.l],
             "axial_resistivity": [float(x) for x in spec.ra], "capacitance": [float(x) for x in spec.cm],
             "gLeak": [float(x) for x in spec.g], "eLeak": [float(x) for x in spec.e],
             "v": [float(x) for x in spec.v], "i_nA": [float(x) for x in spec.i]}
        d.update(kw)
        return d

    def step(spec, dt, vs):
        cell = simlib.cell_from_spec(spec)
        return [Fr(float(x)) for x in simlib.one_step(cell, dt, "bwd_euler", vs)]

    for ci in range(ncells):
        nb = rng.randint(1, 5)
        parents = simlib.rand_parents(rng, nb)
        counts = [rng.randint(1, 3) for _ in range(nb)]
        dt = rng.choice([0.025, 1.0, 100.0, float(10 ** rng.randint(3, 9))])
        vs = BACKENDS[ci % 3]
        distinct.add((tuple(parents), tuple(counts), dt))
        try:
            # 1. charge balance (with stimulus)
            spec = simlib.rand_spec(rng, parents, counts, stim=True)
            x = step(spec, dt, vs)
            evals += 1
            terms = []
            for k in range(spec.n):
                A = spec.area(k)
                C = spec.cm[k] * A
                terms += [C * (x[k] - spec.v[k]), Fr(dt) * A * spec.g[k] * 1000 * (x[k] - spec.e[k]), -Fr(dt) * 100000 * spec.i[k]]
            S = sum(terms)
            scale = sum(abs(t) for t in terms) or Fr(1)
            if len(samples) < 2:
                samples.append(describe(spec, dt, backend=vs, charge_residual=float(S / scale)))
            if abs(S) > Fr(1, 10 ** 9) * scale:
                viol.append(describe(spec, dt, backend=vs, kind="charge is not conserved by the voltage step",
                                     residual=float(S), scale=float(scale)))
            # 2./3. no overshoot and uniform stays uniform (passive, unstimulated)
            spec0 = simlib.rand_spec(rng, parents, counts, stim=False)
            x0 = step(spec0, dt, vs)
            evals += 1
            lo = min(min(spec0.v), min(spec0.e))
            hi = max(max(spec0.v), max(spec0.e))
            tol = Fr(1, 10 ** 9) * max(abs(lo), abs(hi), 1)
            if not all(lo - tol <= a <= hi + tol for a in x0):
                viol.append(describe(spec0, dt, backend=vs, kind="voltage left the range of previous voltages and reversal potentials",
                                     got=[float(a) for a in x0], lo=float(lo), hi=float(hi)))
            V = simlib.dy(rng, -90, -40, 4)
            specu = cablelib.CellSpec(parents, counts, spec0.r, spec0.l, spec0.ra, spec0.cm, spec0.g, [V] * spec0.n, [V] * spec0.n)
            xu = step(specu, dt, vs)
            evals += 1
            if not all(abs(a - Fr(V)) <= Fr(1, 10 ** 9) * abs(Fr(V)) for a in xu):
                viol.append(describe(specu, dt, backend=vs, kind="uniform unstimulated passive model did not stay uniform",
                                     got=[float(a) for a in xu]))
            # 4. reciprocity for ordered pairs (i, j)
            if spec0.n >= 2:
                pairs = list(itertools.combinations(range(spec0.n), 2))
                for (i, j) in rng.sample(pairs, min(len(pairs), ctx.budget(1, 3))):
                    I = simlib.dy(rng, 0.25, 2, 16)
                    resp = {}
                    for src in (i, j):
                        cur = [0.0] * spec0.n
                        cur[src] = I
                        sp = cablelib.CellSpec(parents, counts, spec0.r, spec0.l, spec0.ra, spec0.cm, spec0.g, spec0.e, spec0.v, cur)
                        resp[src] = step(sp, dt, vs)
                        evals += 1
                    dji = resp[i][j] - x0[j]      # change at j caused by current at i
                    dij = resp[j][i] - x0[i]      # change at i caused by current at j
                    # the differences are taken between float results: allow their round-off
                    noise = Fr(4 * 2.0 ** -52) * max(abs(resp[i][j]), abs(resp[j][i]), abs(x0[i]), abs(x0[j])) * 8
                    if abs(dji - dij) > Fr(1, 10 ** 6) * max(abs(dji), abs(dij)) + noise:
                        viol.append(describe(spec0, dt, backend=vs, kind="voltage responses are not reciprocal",
                                             i=i, j=j, current_nA=I, change_at_j_from_i=float(dji), change_at_i_from_j=float(dij)))
        except (NotImplementedError, AssertionError):
            continue
        except Exception as ex:
            import traceback
            viol.append({"kind": "voltage step raised", "parents": parents, "counts": counts, "backend": vs,
                         "error": repr(ex)[:300], "trace": traceback.format_exc()[-500:]})
    try:
        evals += array_level_charge_cases(viol, ctx.rng, ctx.budget(9, 60))
    except Exception as ex:
        import traceback
        viol.append({"kind": "array-level charge cases raised", "error": repr(ex)[:300], "trace": traceback.format_exc()[-500:]})
    for v in viol:
        v.setdefault("finding_class", None)
    return {"evaluations": evals, "distinct_nontrivial": len(distinct),
            "rule": "random branched cells with heterogeneous dyadic parameters, dt in {0.025 .. 1e9}, backends in rotation: exact (Fraction) evaluation of charge balance, range preservation, uniformity and reciprocity on the implementation's one-step output; distinct by (tree, counts, dt)",
            "samples": samples, "violations": viol[:20]}


def replay(ctx, case):
    import simlib
    import cablelib
    from fractions import Fraction as Fr
    if "radius" not in case:
        return {"violated": False, "note": "re-run with the same VERIF_SEED"}
    spec = cablelib.CellSpec(case["parents"], case["counts"], case["radius"], case["length"], case["axial_resistivity"],
                             case["capacitance"], case["gLeak"], case["eLeak"], case["v"], case["i_nA"])
    cell = simlib.cell_from_spec(spec)
    x = [Fr(float(a)) for a in simlib.one_step(cell, case["dt"], "bwd_euler", case.get("backend", "jaxley.thomas"))]
    be = spec.backward_error(case["dt"], x)
    return {"violated": be > 1e-9, "backward_error": be}
