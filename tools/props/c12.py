"""C12 — assembly preserves constituents; uncoupled parts simulate independently."""
import itertools
import math

PROP_FILES = ["Props/C12.v"]
NEEDS_GEN = False
TRUSTED = ["the table concatenation / channel union of Branch, Cell and Network is observed directly on .nodes; the sibling-permutation theorem is about Model/TreeSolve.v, tied to the code by C01's correspondence and by the permutation experiments here"]
ASSUMPTIONS = ["for-all over constituents is tested on sampled heterogeneous constituents; sibling permutations are enumerated on small trees"]

BACKENDS = ["jaxley.thomas", "jaxley.stone", "jax.sparse"]


def rand_comp(rng):
    import jaxley as jx
    import simlib
    from jaxley.channels import HH, Leak, Na, K, Km, CaL, CaT
    with simlib.quiet():
        c = jx.Compartment()
        c.set("radius", simlib.dy(rng, 0.5, 3))
        c.set("length", simlib.dy(rng, 5, 30))
        c.set("v", simlib.dy(rng, -80, -50, 4))
        for ch in rng.sample([HH, Leak, Na, K, Km, CaL, CaT], rng.randint(0, 3)):
            c.insert(ch())
        if "vt" in c.nodes.columns:
            c.set("vt", rng.choice([-60.0, -55.0, -63.0]))
        if "eK" in c.nodes.columns:
            c.set("eK", rng.choice([-90.0, -85.0]))
    return c


def same(a, b):
    return a == b or (isinstance(a, float) and isinstance(b, float) and math.isnan(a) and math.isnan(b)) or \
        (a != a and b != b)


def check_rows(assembled, parts, what, viol, desc):
    """every row of every constituent is found, in order, under contiguous global indices."""
    import numpy as np
    an = assembled.nodes
    if list(an["global_comp_index"]) != list(range(len(an))) or list(an.index) != list(range(len(an))):
        viol.append(dict(desc, kind=f"{what}: global compartment indices are not contiguous", got=[int(x) for x in an["global_comp_index"]]))
    off = 0
    chan_names = {c._name for c in assembled.channels}
    for pi, p in enumerate(parts):
        pn = p.nodes
        pchan = {c._name for c in p.channels}
        for j in range(len(pn)):
            row = an.iloc[off + j]
            for col in pn.columns:
                if "index" in col or col == "controlled_by_param":
                    continue
                if col not in an.columns or not same(row[col], pn.iloc[j][col]):
                    viol.append(dict(desc, kind=f"{what}: a constituent's value was not preserved", constituent=pi, row=j, column=col,
                                     got=repr(row[col]) if col in an.columns else "missing", expected=repr(pn.iloc[j][col])))
                    return
            for ch in chan_names - pchan:
                if bool(row[ch]):
                    viol.append(dict(desc, kind=f"{what}: a channel absent in a constituent is present after assembly", constituent=pi, channel=ch))
                    return
        off += len(pn)
    if off != len(an):
        viol.append(dict(desc, kind=f"{what}: number of rows changed", got=len(an), expected=off))


def shared_state_channels():
    import jax.numpy as jnp
    from jaxley.channels import Channel

    class Pump(Channel):
        def __init__(self, name=None):
            self.current_is_in_mA_per_cm2 = True
            super().__init__(name)
            self.channel_params = {"Pump_tau": 2.0}
            self.channel_states = {"c": 0.1}
            self.current_name = "i_Pump"

        def update_states(self, u, dt, v, params):
            target = 1.0 / (1.0 + jnp.exp(-(v + 60.0) / 5.0))
            return {"c": u["c"] + dt * (target - u["c"]) / params["Pump_tau"]}

        def compute_current(self, u, v, params):
            return jnp.zeros_like(v)

        def init_state(self, states, v, params, delta_t):
            return {}

    class Nernst(Channel):
        def __init__(self, name=None):
            self.current_is_in_mA_per_cm2 = True
            super().__init__(name)
            self.channel_params = {"Nernst_g": 1e-3}
            self.channel_states = {"c": 0.1, "eX": -50.0}
            self.current_name = "i_X"

        def update_states(self, u, dt, v, params):
            return {"eX": -100.0 + 100.0 * u["c"]}

        def compute_current(self, u, v, params):
            return params["Nernst_g"] * (v - u["eX"])

        def init_state(self, states, v, params, delta_t):
            return {}

    return Pump, Nernst


def shared_state_section(ctx, viol, distinct):
    """cell A inserts Pump then Nernst (Nernst reads the concentration Pump has just written), cell B only
    Nernst.  A alone, A in Network([A, B]) and A in Network([B, A]) must agree."""
    import numpy as np
    import jaxley as jx
    from jaxley.channels import Leak
    from simlib import quiet
    Pump, Nernst = shared_state_channels()
    rng = ctx.rng
    evals = 0

    def make(kind, nbr):
        comp = jx.Compartment()
        cell = jx.Cell([jx.Branch([comp, comp])] * nbr, parents=[-1] + [0] * (nbr - 1))
        cell.insert(Leak())
        for ch in ([Pump, Nernst] if kind == "A" else [Nernst, Pump] if kind == "A'" else [Nernst]):
            cell.insert(ch())
        return cell

    def sim(m, views):
        cur = jx.step_current(i_delay=0.5, i_dur=3.0, i_amp=0.05, delta_t=0.025, t_max=5.0)
        for v in views:
            v.stimulate(cur, verbose=False)
        m.record("v", verbose=False)
        return np.asarray(jx.integrate(m, delta_t=0.025, t_max=5.0))

    for _ in range(ctx.budget(1, 3)):
        nbr = rng.randint(1, 3)
        for order in (["A", "B"], ["B", "A"], ["A", "A'"]):
            case = {"cells": order, "nbranches": nbr, "channels": {"A": ["Leak", "Pump", "Nernst"], "B": ["Leak", "Nernst"], "A'": ["Leak", "Nernst", "Pump"]}}
            distinct.add(("shared", tuple(order), nbr))
            try:
                with quiet():
                    alone = []
                    for k in order:
                        c = make(k, nbr)
                        alone.append(sim(c, [c.branch(0).comp(0)]))
                    net = jx.Network([make(k, nbr) for k in order])
                    out = sim(net, [net.cell(i).branch(0).comp(0) for i in range(len(order))])
                evals += 1
                off = 0
                for i, k in enumerate(order):
                    n = alone[i].shape[0]
                    d = float(np.abs(out[off:off + n] - alone[i]).max())
                    off += n
                    if d > 1e-9:
                        own = [c._name for c in make(k, 1).channels]
                        asm = [c for c in (ch._name for ch in net.channels) if c in own]
                        reordered = asm != own
                        viol.append(dict(case, kind="a cell with channels that share a state does not simulate inside a synapse-free network as the cell alone",
                                         cell=i, cell_kind=k, max_abs_diff=d, own_channel_order=own, order_in_network=asm,
                                         finding_class="channel_update_order_follows_first_appearance" if reordered else None))
            except Exception as ex:
                viol.append(dict(case, kind="shared-state network raised", error=repr(ex)[:300], finding_class=None))
    return evals


def builtin_channels_independent(ctx, viol):
    """hypotheses of C12_update_order_irrelevant_for_independent_channels on the built-in channels: the channel_states
    of two different channels are disjoint and update_states returns only the channel's own states; and the
    conclusion, directly: permuting module.channels does not change a simulation."""
    import numpy as np
    import jax.numpy as jnp
    import jaxley as jx
    from jaxley.channels import HH, Leak, Na, K, Km, CaL, CaT
    from simlib import quiet
    rng = ctx.rng
    classes = [HH, Leak, Na, K, Km, CaL, CaT]
    n = 0
    inst = [c() for c in classes]
    for i, a in enumerate(inst):
        params = {k: jnp.asarray([v]) for k, v in a.channel_params.items()}
        states = {k: jnp.asarray([v]) for k, v in a.channel_states.items()}
        out = a.update_states(states, 0.025, jnp.asarray([-60.0]), params)
        n += 1
        if not set(out) <= set(a.channel_states):
            viol.append({"kind": "a built-in channel writes a state that is not one of its own channel_states", "channel": a._name, "returned": sorted(out), "finding_class": None})
        for b in inst[i + 1:]:
            if set(a.channel_states) & set(b.channel_states):
                viol.append({"kind": "two built-in channels share a state (the update order would matter)", "channels": [a._name, b._name],
                             "shared": sorted(set(a.channel_states) & set(b.channel_states)), "finding_class": None})
    for _ in range(ctx.budget(2, 8)):
        with quiet():
            cell = jx.Cell([jx.Branch(jx.Compartment(), 2)] * 2, parents=[-1, 0])
            for c in rng.sample(classes, rng.randint(2, 5)):
                cell.insert(c())
            cell.branch(0).comp(0).stimulate(0.05 * jnp.ones(40), verbose=False)
            cell.record("v", verbose=False)
            a = np.asarray(jx.integrate(cell))
            order = [c._name for c in cell.channels]
            perm = list(cell.channels)
            rng.shuffle(perm)
            cell.channels[:] = perm
            b = np.asarray(jx.integrate(cell))
        n += 1
        if np.abs(a - b).max() > 1e-9:        # the currents of the channels are summed in list order: round-off level differences are expected
            viol.append({"kind": "permuting the channel list of built-in channels changes the simulation", "order": order, "permuted": [c._name for c in perm],
                         "max_abs_diff": float(np.abs(a - b).max()), "finding_class": None})
    return n


def run(ctx):
    import numpy as np
    import jaxley as jx
    import simlib
    import cablelib
    from simlib import quiet
    rng = ctx.rng
    viol, samples, distinct = [], [], set()
    evals = 0
    # ---- A. tables of heterogeneous constituents
    for _ in range(ctx.budget(6, 40)):
        try:
            with quiet():
                comps = [rand_comp(rng) for _ in range(rng.randint(1, 3))]
                br = jx.Branch(comps)
                desc = {"channels_per_comp": [[c._name for c in cp.channels] for cp in comps]}
                check_rows(br, comps, "Branch", viol, desc)
                branches = [br] + [jx.Branch([rand_comp(rng) for _ in range(rng.randint(1, 2))]) for _ in range(rng.randint(0, 2))]
                parents = simlib.rand_parents(rng, len(branches))
                cell = jx.Cell(branches, parents=parents)
                check_rows(cell, branches, "Cell", viol, dict(desc, parents=parents))
                cells = [cell] + [jx.Cell([jx.Branch([rand_comp(rng)])], parents=[-1]) for _ in range(rng.randint(0, 2))]
                net = jx.Network(cells)
                check_rows(net, cells, "Network", viol, dict(desc, ncells=len(cells)))
                # cell / branch index columns
                cidx = [int(x) for x in net.nodes["global_cell_index"]]
                want = [i for i, c in enumerate(cells) for _ in range(len(c.nodes))]
                if cidx != want:
                    viol.append(dict(desc, kind="Network: global cell indices do not follow the constituents", got=cidx, expected=want))
            evals += 3
            distinct.add(tuple(tuple(d) for d in desc["channels_per_comp"]))
            if len(samples) < 2:
                samples.append(desc)
        except Exception as ex:
            import traceback
            viol.append({"kind": "assembly raised", "error": repr(ex)[:300], "trace": traceback.format_exc()[-500:]})

    # ---- B. uncoupled parts simulate independently (passive, exact reference available)
    for _ in range(ctx.budget(5, 30)):
        specs = []
        same_n = rng.choice([None, 1, 2])
        for _c in range(rng.randint(2, 3)):
            nb = rng.randint(1, 3)
            specs.append(simlib.rand_spec(rng, simlib.rand_parents(rng, nb), [same_n or rng.randint(1, 3) for _ in range(nb)], stim=False))
        dt = rng.choice([0.025, 1.0])
        case = {"cells": [(s.parents, s.counts) for s in specs], "dt": dt}
        distinct.add(("net", tuple(tuple(s.counts) for s in specs)))
        try:
            cells = [simlib.cell_from_spec(s) for s in specs]
            with quiet():
                net = jx.Network(cells)
                net.delete_recordings()
                net.record("v")
            for vs in BACKENDS:
                try:
                    o = simlib.one_step(net, dt, "bwd_euler", vs)
                except (NotImplementedError, AssertionError, ValueError):
                    continue
                alone = []
                ok = True
                for c in cells:
                    try:
                        alone += [float(x) for x in simlib.one_step(c, dt, "bwd_euler", vs)]
                    except (NotImplementedError, AssertionError, ValueError):
                        ok = False
                evals += 1
                if ok and max(abs(float(a) - b) for a, b in zip(o, alone)) > 1e-9:
                    viol.append(dict(case, kind="a cell inside a network without synapses does not simulate as the cell alone", backend=vs,
                                     network=[float(x) for x in o], alone=alone))
        except Exception as ex:
            viol.append(dict(case, kind="network simulation raised", error=repr(ex)[:300]))
    # one-branch cell vs branch alone, one-compartment branch vs compartment alone
    for _ in range(ctx.budget(3, 20)):
        try:
            with quiet():
                from jaxley.channels import Leak
                comps = []
                for _k in range(rng.randint(1, 3)):
                    c = jx.Compartment()
                    c.set("radius", simlib.dy(rng, 0.5, 3)); c.set("length", simlib.dy(rng, 5, 30)); c.set("v", simlib.dy(rng, -80, -50, 4))
                    c.insert(Leak())
                    comps.append(c)
                br = jx.Branch(comps)
                cell = jx.Cell([br], parents=[-1])
                for m in (br, cell):
                    m.record("v")
                for vs in BACKENDS:
                    a = simlib.one_step(br, 0.025, "bwd_euler", vs)
                    b = simlib.one_step(cell, 0.025, "bwd_euler", vs)
                    evals += 1
                    if np.abs(a - b).max() > 1e-10:
                        viol.append({"kind": "a one-branch cell differs from the branch alone", "backend": vs})
                c0 = comps[0]
                b1 = jx.Branch([c0])
                c0.record("v"); b1.record("v")
                for vs in BACKENDS:
                    a = simlib.one_step(c0, 0.025, "bwd_euler", vs)
                    b = simlib.one_step(b1, 0.025, "bwd_euler", vs)
                    evals += 1
                    if np.abs(a - b).max() > 1e-10:
                        viol.append({"kind": "a one-compartment branch differs from the compartment alone", "backend": vs})
        except Exception as ex:
            viol.append({"kind": "single-constituent module raised", "error": repr(ex)[:300]})

    # ---- C. sibling order: all permutations of the branches that keep the parent vector sorted
    # (the first tree with siblings 1, 2 swapped gives [-1, 0, 0, 2, 1]: a sorted parent vector in which the
    #  parents of consecutive branches are NOT in increasing order, i.e. not a level-order numbering)
    trees = [[-1, 0, 0, 1, 2], [-1, 0, 0], [-1, 0, 0, 1, 1], [-1, 0, 0, 0], [-1, 0, 1, 1], [-1, 0, 0, 1, 2, 2, 1]]
    for parents in trees[: ctx.budget(4, 6)]:
        nb = len(parents)
        counts = [rng.randint(1, 3) for _ in range(nb)]
        spec = simlib.rand_spec(rng, parents, counts, stim=True)
        off = [sum(counts[:b]) for b in range(nb)]
        base = None
        perms = [p for p in itertools.permutations(range(nb)) if p[0] == 0]
        rng.shuffle(perms)
        swap12 = tuple([0, 2, 1] + list(range(3, nb)))
        perms = [swap12] + [p for p in perms if p != swap12]
        for perm in perms[: ctx.budget(4, 24)]:
            # new branch k is old branch perm[k]; parents must stay sorted
            inv = {old: new for new, old in enumerate(perm)}
            newpar = [-1 if parents[perm[k]] < 0 else inv[parents[perm[k]]] for k in range(nb)]
            if any(not (k == 0 or 0 <= newpar[k] < k) for k in range(nb)):
                continue
            rows = [r for k in range(nb) for r in range(off[perm[k]], off[perm[k]] + counts[perm[k]])]
            sp2 = cablelib.CellSpec(newpar, [counts[perm[k]] for k in range(nb)], *[[arr[r] for r in rows] for arr in
                                    (spec.r, spec.l, spec.ra, spec.cm, spec.g, spec.e, spec.v, spec.i)])
            case = {"parents": parents, "counts": counts, "permutation": list(perm), "new_parents": newpar}
            distinct.add(("perm", tuple(parents), tuple(counts), perm))
            for vs in BACKENDS:
                try:
                    o = simlib.one_step(simlib.cell_from_spec(sp2), 0.025, "bwd_euler", vs)
                except (NotImplementedError, AssertionError, ValueError):
                    continue
                except Exception as ex:
                    viol.append(dict(case, kind="permuted cell raised", backend=vs, error=repr(ex)[:300]))
                    continue
                evals += 1
                back = [None] * spec.n
                for pos, r in enumerate(rows):
                    back[r] = float(o[pos])
                if base is None:
                    base = [float(x) for x in spec.step(0.025, "bwd_euler")]
                if max(abs(a - b) for a, b in zip(back, base)) > 1e-9:
                    viol.append(dict(case, kind="listing sibling branches in another order changes the results beyond the permutation",
                                     backend=vs, got=back, expected=base))
    # ---- D. channels that communicate through a shared state (the pump / reversal-potential pattern of
    # tests/test_shared_state.py): the update order of a constituent's channels must not depend on what is
    # listed before it
    evals += shared_state_section(ctx, viol, distinct)
    evals += builtin_channels_independent(ctx, viol)
    for v in viol:
        v.setdefault("finding_class", None)
    return {"evaluations": evals, "distinct_nontrivial": len(distinct),
            "rule": "A: Branch/Cell/Network built from compartments with random channel sets (HH, Leak, Na, K, Km, CaL, CaT incl. shared vt/eK), row-by-row comparison with the constituents; B: networks without synapses vs cells alone on every accepting backend, one-branch cell vs branch, one-compartment branch vs compartment; C: every sorted sibling permutation of small trees, results mapped back; distinct by constituents / tree / permutation",
            "samples": samples, "violations": viol[:20]}


def replay(ctx, case):
    return {"violated": False, "note": "re-run the check with the same VERIF_SEED"}
