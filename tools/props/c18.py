"""C18 — modules survive pickling and deep copies unchanged and independent (partial)."""
import math

PROP_FILES = ["Props/C18.v"]
NEEDS_GEN = False
TRUSTED = ["CPython's pickle / deepcopy, pandas and JAX serialisation are NOT modelled; Model/Heap.v only states the aliasing discipline a copy must obey",
           "the real round trip is performed on modules produced by random histories; that is the decisive evidence"]
ASSUMPTIONS = ["partial: theorems about graph copies in an abstract heap; the property itself is decided by the direct predicate (tables, simulation, gradients, independence, no shared mutable object by id)"]

MUTABLE = ("DataFrame", "Series", "dict", "list", "ndarray", "set")


def walk(obj, seen, out, depth=0):
    """ids of the mutable containers reachable from a module through attributes / items."""
    import numpy as np
    import pandas as pd
    if id(obj) in seen or depth > 6:
        return
    seen.add(id(obj))
    tn = type(obj).__name__
    if tn in MUTABLE:
        out[id(obj)] = tn
    if isinstance(obj, dict):
        for v in obj.values():
            walk(v, seen, out, depth + 1)
    elif isinstance(obj, (list, tuple, set)):
        for v in obj:
            walk(v, seen, out, depth + 1)
    elif hasattr(obj, "__dict__") and not isinstance(obj, (type, pd.DataFrame, pd.Series, np.ndarray)) and not callable(obj):
        for v in vars(obj).values():
            walk(v, seen, out, depth + 1)


def tables(m):
    import simlib
    return simlib.snapshot(m)


def run(ctx):
    import copy
    import pickle
    import warnings
    import numpy as np
    import jax
    import jax.numpy as jnp
    import jaxley as jx
    import simlib
    from simlib import quiet
    from jaxley.channels import HH, Leak, Na, K
    from jaxley.connect import connect
    from jaxley.synapses import IonotropicSynapse, TestSynapse
    warnings.simplefilter("ignore")
    rng = ctx.rng
    viol, samples, distinct = [], [], set()
    evals = 0
    comp = jx.Compartment()

    def make(kind):
        hist = []
        with quiet():
            if kind == "swc":
                if rng.random() < 0.5:
                    m = jx.read_swc("/repo/tests/swc_files/morph_minimal.swc", ncomp=rng.choice([1, 2]))
                    hist.append("read_swc")
                else:
                    # a tracing whose soma is ONE traced point (its radius function is built on another path of the reader)
                    import os
                    path = os.path.join(os.path.dirname(os.path.dirname(os.path.dirname(os.path.abspath(__file__)))), ".work", f"c18_sps_{os.getpid()}.swc")
                    os.makedirs(os.path.dirname(path), exist_ok=True)
                    with open(path, "w") as fh:
                        fh.write("1 1 0 0 0 8 -1\n2 3 8 0 0 1 1\n3 3 20 0 0 1 2\n4 3 30 5 0 0.8 3\n5 3 30 -5 0 0.8 3\n6 3 40 -8 0 0.5 5\n")
                    m = jx.read_swc(path, ncomp=rng.choice([1, 2]))
                    os.remove(path)
                    hist.append("read_swc(single-point soma)")
                if rng.random() < 0.5:
                    m.branch(1).set_ncomp(3)
                    hist.append("branch(1).set_ncomp(3)")
            elif kind == "network":
                m = jx.Network([jx.Cell([jx.Branch([comp] * 2)] * rng.randint(1, 2), parents=[-1, 0][: rng.randint(1, 2)]) for _ in range(3)]) \
                    if False else jx.Network([jx.Cell([jx.Branch([comp] * 2)], parents=[-1]) for _ in range(3)])
                for _ in range(rng.randint(1, 3)):
                    a, b = rng.sample(range(6), 2)
                    connect(m.select(nodes=[a]), m.select(nodes=[b]), rng.choice([IonotropicSynapse, TestSynapse])())
                    hist.append(f"connect {a}->{b}")
            elif kind == "padded":
                # a branch WITH children that is shorter than its level's longest branch (its slots
                # in the solver's index structure are padded), reached by set_ncomp or directly
                if rng.random() < 0.5:
                    m = jx.Cell([jx.Branch([comp] * 4) for _ in range(5)], parents=[-1, 0, 0, 1, 1])
                    m.branch(1).set_ncomp(2)
                    hist.append("5 x 4 compartments, branch(1).set_ncomp(2)")
                else:
                    m = jx.Cell([jx.Branch([comp] * c) for c in [2, 1, 3, 2, 2]], parents=[-1, 0, 0, 1, 1])
                    hist.append("counts [2,1,3,2,2]")
            else:
                nb = rng.randint(1, 3)
                m = jx.Cell([jx.Branch([comp] * rng.randint(1, 3)) for _ in range(nb)], parents=simlib.rand_parents(rng, nb))
            n = len(m.nodes)
            for _ in range(rng.randint(2, 6)):
                op = rng.choice(["insert", "set", "group", "trainable", "stim", "clamp", "record"])
                rows = sorted(rng.sample(range(n), rng.randint(1, n)))
                v = m.select(nodes=rows)
                if op == "insert":
                    v.insert(rng.choice([HH, Leak, Na, K])())
                elif op == "set":
                    v.set("radius", simlib.dy(rng, 0.5, 3))
                elif op == "group":
                    v.add_to_group(rng.choice(["ga", "gb"]))
                elif op == "trainable":
                    v.make_trainable(rng.choice(["radius", "length"]))
                elif op == "stim":
                    v.stimulate(jnp.asarray([0.1, 0.05, 0.0]))
                elif op == "clamp":
                    m.select(nodes=[rows[0]]).clamp("v", jnp.asarray([-60.0, -60.0, -60.0]))
                elif op == "record":
                    v.record("v")
                hist.append(f"{op} {rows}")
            if not len(m.recordings):
                m.record("v")
            if not len(m.externals):
                m.select(nodes=[0]).stimulate(jnp.asarray([0.1, 0.05, 0.0]))
            if not m.trainable_params:
                m.make_trainable("radius")
            if not m.channels:
                m.insert(Leak())
        return m, hist

    def simulate(m):
        with quiet():
            p = m.get_parameters()
            outs = [np.asarray(jx.integrate(m, p, delta_t=0.025, voltage_solver="jax.sparse"))]
            for vs in ("jaxley.stone", "jaxley.thomas"):
                try:
                    outs.append(np.asarray(jx.integrate(m, p, delta_t=0.025, voltage_solver=vs)))
                except (AssertionError, NotImplementedError, ValueError):
                    outs.append(np.zeros((1, 1)))       # this backend refuses the structure
            out = np.concatenate([o.reshape(-1) for o in outs])
            g = jax.grad(lambda q: jnp.sum(jx.integrate(m, q, delta_t=0.025, voltage_solver="jaxley.thomas" if type(m).__name__ != "Network" else "jax.sparse") ** 2) * 1e-4)(p)
        return out, [np.asarray(x) for x in jax.tree_util.tree_leaves(g)]

    kinds = ["padded", "cell", "swc", "network", "padded", "network", "swc", "cell"]
    for hi in range(ctx.budget(8, 40)):
        kind = kinds[hi % len(kinds)]
        try:
            m, hist = make(kind)
        except Exception as ex:
            viol.append({"kind": "history raised", "module": kind, "error": repr(ex)[:300]})
            continue
        desc = {"module": kind, "history": hist}
        distinct.add((kind, tuple(hist)))
        if len(samples) < 3:
            samples.append(desc)
        try:
            t0 = tables(m)
            out0, g0 = simulate(m)
            for how in ("pickle", "deepcopy"):
                try:
                    c = pickle.loads(pickle.dumps(m)) if how == "pickle" else copy.deepcopy(m)
                except Exception as ex:
                    viol.append(dict(desc, kind=f"{how} of the module raised", error=repr(ex)[:300]))
                    continue
                evals += 1
                d = simlib.diff_snap(t0, tables(c))
                if d:
                    viol.append(dict(desc, kind=f"tables differ after {how}", differing=d))
                out1, g1 = simulate(c)
                if out1.shape != out0.shape or not np.array_equal(out0, out1):
                    viol.append(dict(desc, kind=f"simulation differs after {how}", maxdiff=float(np.abs(out0 - out1).max()) if out0.shape == out1.shape else None))
                if any(not np.allclose(a, b, rtol=1e-12, atol=1e-14) for a, b in zip(g0, g1)):
                    viol.append(dict(desc, kind=f"gradient differs after {how}"))
                # no mutable container is shared between the original and the copy
                a, b = {}, {}
                walk(m, set(), a)
                walk(c, set(), b)
                shared = {k: a[k] for k in a if k in b}
                if shared:
                    viol.append(dict(desc, kind=f"the {how} copy shares mutable objects with the original", shared_kinds=sorted(set(shared.values()))))
                # independence: edit the copy, the original is unchanged
                with quiet():
                    c.select(nodes=[0]).set("radius", 9.5)
                    c.select(nodes=[0]).insert(K())
                    c.select(nodes=[0]).record("v")
                    c.add_to_group("zz")
                    c.delete_stimuli()
                    if hasattr(c, "groups") and c.groups:
                        k0 = list(c.groups)[0]
                        try:
                            c.groups[k0][...] = 0
                        except Exception:
                            pass
                    c.nodes.iloc[0, c.nodes.columns.get_loc("length")] = 123.0
                d = simlib.diff_snap(t0, tables(m))
                if d:
                    viol.append(dict(desc, kind=f"editing the {how} copy altered the original", differing=d))
                out2, _ = simulate(m)
                if not np.array_equal(out0, out2):
                    viol.append(dict(desc, kind=f"editing the {how} copy changed the original's simulation"))
            # views are modules too: a pickled / deep-copied view selects the same rows, keeps its
            # parameter-sharing structure, and make_trainable through it creates the same parameters
            with quiet():
                if kind == "network":
                    mkviews = [("cell('all')", lambda x: x.cell("all")), ("cell(1).branch(0).loc(0.0)", lambda x: x.cell(1).branch(0).loc(0.0)), ("cell([0,2])", lambda x: x.cell([0, 2]))]
                else:
                    mkviews = [("branch('all')", lambda x: x.branch("all")), ("branch('all').loc(0.0)", lambda x: x.branch("all").loc(0.0)),
                               ("branch('all').comp('all')", lambda x: x.branch("all").comp("all")), ("branch(0)", lambda x: x.branch(0))]
            for vname, mkv in mkviews:
                for how in ("pickle", "deepcopy"):
                    try:
                        with quiet():
                            m0 = copy.deepcopy(m)
                            m0.delete_trainables()
                            v0 = mkv(m0)
                            v1 = pickle.loads(pickle.dumps(v0)) if how == "pickle" else copy.deepcopy(v0)
                            evals += 1
                            cols = [c_ for c_ in ("global_comp_index", "controlled_by_param", "radius", "length") if c_ in v0.nodes.columns]
                            same_tab = list(v0.nodes.index) == list(v1.nodes.index) and all(
                                [repr(a) for a in v0.nodes[c_].tolist()] == [repr(a) for a in v1.nodes[c_].tolist()] for c_ in cols)
                            if not same_tab:
                                viol.append(dict(desc, kind=f"a {how} copy of a view shows other rows / another sharing structure", view=vname))
                                continue
                            if vname.startswith("cell('all')"):
                                continue      # make_trainable is not allowed on cell('all')
                            v0.make_trainable("radius")
                            v1.make_trainable("radius")
                            n0 = [np.asarray(i).shape for i in v0.base.indices_set_by_trainables]
                            n1 = [np.asarray(i).shape for i in v1.base.indices_set_by_trainables]
                            if n0 != n1 or v0.base.num_trainable_params != v1.base.num_trainable_params:
                                viol.append(dict(desc, kind=f"make_trainable through a {how} copy of a view creates other parameters than through the view",
                                                 view=vname, original=[list(x) for x in n0], copy=[list(x) for x in n1]))
                    except Exception as ex:
                        viol.append(dict(desc, kind=f"{how} of a view raised", view=vname, error=repr(ex)[:300]))
        except Exception as ex:
            import traceback
            viol.append(dict(desc, kind="round trip raised", error=repr(ex)[:300], trace=traceback.format_exc()[-500:]))
    for v in viol:
        v.setdefault("finding_class", None)
    return {"evaluations": evals, "distinct_nontrivial": len(distinct),
            "rule": "modules produced by random construction / editing histories (hand-built cells incl. a parent branch shorter than its level's longest, SWC cells with radius-generating functions incl. set_ncomp, networks with synapses; channels, groups, trainables, stimuli, clamps, recordings): pickle round trip and deepcopy; canonical snapshot of all tables, bit-identical simulation on all three voltage solvers, equal gradients, no mutable container shared by id, edits of the copy leave the original's tables and simulation unchanged; pickled / deep-copied VIEWS (branch('all'), loc, comp('all'), cell subsets) show the same rows and sharing structure and create the same trainables; distinct by (module kind, history)",
            "samples": samples, "violations": viol[:20]}


def replay(ctx, case):
    return {"violated": False, "note": "re-run the check with the same VERIF_SEED"}
