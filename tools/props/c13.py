"""C13 — changing the number of compartments preserves the branch and its surroundings."""
import math

PROP_FILES = ["Props/C13.v"]
NEEDS_GEN = False
TRUSTED = ["Model/SetNcomp.v mirrors the row replacement / group remapping of Module.set_ncomp by hand and is compared with it on every run",
           "pandas row surgery (drop / concat / reset_index) is modelled, not verified"]
ASSUMPTIONS = ["the for-all over branches, n and call sequences is proved of the model; the code is tied to it by sampled hand-built and SWC cells, sequences of set_ncomp calls, with channels and groups"]

BACKENDS = ["jaxley.thomas", "jaxley.stone", "jax.sparse"]
SWC = ["/repo/tests/swc_files/morph_minimal.swc", "/repo/tests/swc_files/morph_250.swc"]


def uniform_cell(rng, parents, counts, props):
    """hand-built cell whose branches are uniform (what set_ncomp requires)."""
    import jaxley as jx
    import simlib
    from jaxley.channels import Leak, HH
    comp = jx.Compartment()
    with simlib.quiet():
        cell = jx.Cell([jx.Branch([comp] * c) for c in counts], parents=parents)
        cell.insert(Leak())
        for b, p in enumerate(props):
            v = cell.branch(b)
            v.set("radius", p["radius"])
            v.set("length", p["L"] / counts[b])
            v.set("axial_resistivity", p["ra"])
            v.set("capacitance", p["cm"])
            v.set("Leak_gLeak", p["g"])
            v.set("v", p["v"])
            if p["hh"]:
                v.insert(HH())
    return cell


def tables_equal(a, b, viol, desc):
    import numpy as np
    cols = [c for c in a.nodes.columns if c in b.nodes.columns and c != "controlled_by_param"]
    if len(a.nodes) != len(b.nodes) or set(a.nodes.columns) != set(b.nodes.columns):
        viol.append(dict(desc, kind="tables differ in shape from those of a module built directly",
                         got=[len(a.nodes), sorted(a.nodes.columns)], expected=[len(b.nodes), sorted(b.nodes.columns)]))
        return
    for c in cols:
        x, y = a.nodes[c].to_numpy(), b.nodes[c].to_numpy()
        for r in range(len(x)):
            xv, yv = x[r], y[r]
            ok = (xv == yv) or (xv != xv and yv != yv) or (isinstance(xv, (float, np.floating)) and abs(float(xv) - float(yv)) <= 1e-12 * max(1.0, abs(float(yv))))
            if not ok:
                viol.append(dict(desc, kind="set_ncomp result differs from a module built directly with that number of compartments",
                                 column=c, row=r, got=repr(xv), expected=repr(yv)))
                return
    if [int(x) for x in a.ncomp_per_branch] != [int(x) for x in b.ncomp_per_branch] or \
       [int(x) for x in a.comb_parents] != [int(x) for x in b.comb_parents]:
        viol.append(dict(desc, kind="connectivity / compartment counts differ from a module built directly",
                         got=[[int(x) for x in a.ncomp_per_branch], [int(x) for x in a.comb_parents]]))


def run(ctx):
    import copy
    import numpy as np
    import jax.numpy as jnp
    import jaxley as jx
    import simlib
    import coqeval
    from simlib import quiet
    rng = ctx.rng
    viol, samples, distinct = [], [], set()
    evals = 0
    coq_jobs = []
    CRIT = [([-1, 0, 0, 1, 1], [2, 2, 2, 2, 2], [(1, 1), (0, 3)]),      # parent ends up shorter than its sibling (F1 shape)
            ([-1, 0, 0], [2, 2, 2], [(0, 4)])]                           # group on branch 2, branch 0 grows (F9 shape)
    for ci in range(ctx.budget(6, 40)):
        if ci < len(CRIT):
            parents, counts, seq = CRIT[ci]
        else:
            nb = rng.randint(2, 5)
            parents = simlib.rand_parents(rng, nb)
            counts = [rng.randint(1, 4) for _ in range(nb)]
            seq = [(rng.randrange(nb), rng.randint(1, 5)) for _ in range(rng.randint(1, 3))]
        nb = len(parents)
        props = [{"radius": simlib.dy(rng, 0.5, 3), "L": float(rng.choice([12, 24, 36, 60])), "ra": float(rng.choice([1000, 5000])),
                  "cm": simlib.dy(rng, 0.5, 2), "g": rng.choice([1, 2, 4]) * 2.0 ** -13, "v": simlib.dy(rng, -80, -50, 4),
                  "hh": rng.random() < 0.4} for _ in range(nb)]
        case = {"parents": parents, "counts": counts, "set_ncomp_calls": seq}
        distinct.add((tuple(parents), tuple(counts), tuple(seq)))
        try:
            cell = uniform_cell(rng, parents, counts, props)
            gbranches = sorted(rng.sample(range(nb), rng.randint(1, nb)))
            with quiet():
                cell.branch(gbranches).add_to_group("grp")
                cell.branch(nb - 1).add_to_group("last")
                # a group that holds only PART of a branch (one compartment of a branch that a call will modify if possible)
                pb = rng.choice([bb for bb, _n in seq] or [0])
                cell.branch(pb).comp(0).add_to_group("part")
            total_len = [sum(cell.branch(b).nodes["length"]) for b in range(nb)]
            cur = list(counts)
            for (b, n) in seq:
                before = cell.nodes.copy()
                g_before = {k: [int(x) for x in v] for k, v in cell.groups.items()}
                off = [sum(cur[:k]) for k in range(nb)]
                with quiet():
                    cell.branch(b).set_ncomp(n)
                evals += 1
                # model of the surgery: labels of all rows and of the groups
                s, old = off[b], cur[b]
                for gname, g in g_before.items():
                    coq_jobs.append((f"remap_group {coqeval.coq_list(g)} {s} {old} {n}", sorted(int(x) for x in cell.groups[gname]),
                                     dict(case, group=gname, before=g, call=(b, n))))
                # every other row untouched
                after = cell.nodes
                for r in range(len(before)):
                    if r < s:
                        r2 = r
                    elif r >= s + old:
                        r2 = r - old + n
                    else:
                        continue
                    for col in before.columns:
                        if "index" in col or col == "controlled_by_param":
                            continue
                        x, y = before.iloc[r][col], after.iloc[r2][col]
                        if not ((x == y) or (x != x and y != y)):
                            viol.append(dict(case, kind="set_ncomp changed a compartment of another branch", call=(b, n), row=r, column=col))
                            break
                cur[b] = n
            # compare with direct construction
            direct = uniform_cell(rng, parents, cur, props)
            desc = dict(case, final_counts=cur)
            tables_equal(cell, direct, viol, desc)
            for b in range(nb):
                if abs(sum(cell.branch(b).nodes["length"]) - total_len[b]) > 1e-9:
                    viol.append(dict(desc, kind="total length of a branch changed", branch=b))
            # group membership by branch
            got_part = sorted(set(int(x) for x in cell.nodes.loc[cell.groups["part"], "global_branch_index"]))
            if got_part != [pb]:
                viol.append(dict(desc, kind="a named group that held part of a branch changed its branch membership", group="part", branches_now=got_part,
                                 branches_expected=[pb], rows=[int(x) for x in cell.groups["part"]]))
            for gname, want in (("grp", gbranches), ("last", [nb - 1])):
                got = sorted(set(int(x) for x in cell.nodes.loc[cell.groups[gname], "global_branch_index"]))
                full = all(sum(1 for x in cell.groups[gname] if int(cell.nodes.loc[x, "global_branch_index"]) == bb) == cur[bb] for bb in want)
                if got != sorted(want) or not full:
                    viol.append(dict(desc, kind="a named group no longer contains exactly the compartments of its branches", group=gname,
                                     branches_now=got, branches_expected=sorted(want), rows=[int(x) for x in cell.groups[gname]]))
            if len(samples) < 2:
                samples.append(desc)
            # simulation equivalence with every backend
            with quiet():
                for m in (cell, direct):
                    m.select(nodes=[0]).stimulate(jnp.asarray([0.2, 0.1, 0.0]))
                    m.record("v")
            for vs in BACKENDS:
                try:
                    with quiet():
                        a = np.asarray(jx.integrate(cell, voltage_solver=vs))
                        d = np.asarray(jx.integrate(direct, voltage_solver=vs))
                except (NotImplementedError, AssertionError, ValueError):
                    continue
                evals += 1
                if a.shape != d.shape or np.abs(a - d).max() > 1e-9:
                    viol.append(dict(desc, kind="simulation after set_ncomp differs from the module built directly", backend=vs,
                                     maxdiff=float(np.abs(a - d).max()) if a.shape == d.shape else None))
            # and every backend solves the discretised cable equation (shorter parent than sibling included)
            outs = []
            for vs in BACKENDS:
                try:
                    with quiet():
                        outs.append(np.asarray(jx.integrate(cell, voltage_solver=vs)))
                except (NotImplementedError, AssertionError, ValueError):
                    pass
            if len(outs) >= 2 and max(np.abs(o - outs[-1]).max() for o in outs) > 1e-8:
                viol.append(dict(desc, kind="voltage solvers disagree after set_ncomp"))
        except Exception as ex:
            import traceback
            viol.append(dict(case, kind="set_ncomp / construction raised", error=repr(ex)[:300], trace=traceback.format_exc()[-500:]))

    # ---- SWC cells: radius profile and length, branch by branch, against read_swc(ncomp=n)
    for fname in SWC[: ctx.budget(1, 2)]:
        try:
            import warnings
            with quiet(), warnings.catch_warnings():
                warnings.simplefilter("ignore")
                base = jx.read_swc(fname, ncomp=2)
                nb = len(base.comb_parents)
                n_new = rng.choice([1, 3, 4])
                direct = jx.read_swc(fname, ncomp=n_new)
                chosen = sorted(rng.sample(range(nb), min(nb, ctx.budget(4, 12))))
                for b in chosen:
                    base.branch(b).set_ncomp(n_new)
            evals += len(chosen)
            distinct.add((fname, n_new))
            for b in chosen:
                for col in ("radius", "length"):
                    x = base.branch(b).nodes[col].to_numpy()
                    y = direct.branch(b).nodes[col].to_numpy()
                    if len(x) != len(y) or np.abs(x - y).max() > 1e-9 * max(1.0, np.abs(y).max()):
                        viol.append({"kind": "set_ncomp on an SWC cell does not reproduce the radius/length profile of read_swc(ncomp=n)",
                                     "file": fname, "branch": b, "n": n_new, "column": col, "got": x.tolist(), "expected": y.tolist()})
            gb = {k: sorted(set(int(x) for x in base.nodes.loc[v, "global_branch_index"])) for k, v in base.groups.items()}
            gd = {k: sorted(set(int(x) for x in direct.nodes.loc[v, "global_branch_index"])) for k, v in direct.groups.items()}
            if gb != gd:
                viol.append({"kind": "type groups of an SWC cell changed their branch membership after set_ncomp", "file": fname, "got": gb, "expected": gd})
        except Exception as ex:
            import traceback
            viol.append({"kind": "SWC set_ncomp raised", "file": fname, "error": repr(ex)[:300], "trace": traceback.format_exc()[-500:]})

    # ---- the model on the observed surgeries
    import re
    try:
        outs = coqeval.coq_eval(["SetNcomp"], [j[0] for j in coq_jobs], prelude="Close Scope Q_scope. Open Scope nat_scope.")
        for (expr, got, case), o in zip(coq_jobs, outs):
            model = sorted(int(x) for x in re.findall(r"\d+", o))
            if model != got:
                viol.append(dict(case, kind="group labels after set_ncomp differ from Model/SetNcomp.remap_group", got=got, model=model))
    except Exception as ex:
        viol.append({"kind": "correspondence could not be evaluated", "error": repr(ex)[:500], "no_failing_input_found": True})
    import regress
    evals += regress.run("C13", viol)
    for v in viol:
        v.setdefault("finding_class", None)
    return {"evaluations": evals, "distinct_nontrivial": len(distinct),
            "rule": "hand-built cells with per-branch uniform properties, Leak everywhere and HH on some branches, two named groups, sequences of set_ncomp calls (critical shapes first: a parent ending up shorter than its sibling; a group behind a growing branch): rows of other branches, group labels (also through Model/SetNcomp.v), tables vs direct construction, total length, simulation on every accepting backend; SWC cells branch by branch against read_swc(ncomp=n); distinct by (tree, counts, calls)",
            "samples": samples, "violations": viol[:20], "traces_validated_against_impl": len(coq_jobs)}


def replay(ctx, case):
    return {"violated": False, "note": "re-run the check with the same VERIF_SEED"}
