#!/bin/bash
# confirm_seed.sh <dir with patch.diff demo.py> <name> [fulltests]
# fresh worktree of /repo HEAD: demo must pass on the clean tree and fail with the patch;
# optionally the 117 baseline tests must pass with the patch.  The worktree is removed afterwards.
set -u
SRC=$1; NAME=$2; FULL=${3:-}
WT=/tmp/confirm/$NAME
mkdir -p /tmp/confirm
git -C /repo worktree remove --force "$WT" >/dev/null 2>&1
git -C /repo worktree add --detach "$WT" HEAD >/dev/null 2>&1 || { echo "worktree failed"; exit 2; }
cd "$WT"
D=$WT; cp "$SRC/demo.py" $D/demo.py
export PYTHONPATH=$WT JAX_PLATFORMS=cpu PYTHONHASHSEED=0
timeout 900 /venv/bin/python $D/demo.py > /tmp/confirm/$NAME.clean.log 2>&1; C=$?
git apply "$SRC/patch.diff" || { echo "$NAME: patch does not apply"; C2=applyfail; }
timeout 900 /venv/bin/python $D/demo.py > /tmp/confirm/$NAME.patched.log 2>&1; P=$?
rm -f $WT/demo.py
T=skipped
if [ -n "$FULL" ]; then
  timeout 3600 /venv/bin/python -m pytest -q -p no:cacheprovider -x --timeout=900 $(cat /tmp/seed/stable_tests.txt) > /tmp/confirm/$NAME.tests.log 2>&1; T=$?
fi
echo "$NAME: demo_clean_exit=$C demo_patched_exit=$P stable_tests_exit=$T $(tail -1 /tmp/confirm/$NAME.tests.log 2>/dev/null)"
cd /; git -C /repo worktree remove --force "$WT" >/dev/null 2>&1
