#!/bin/sh
# Build the framework from files on disk only (offline).  Run in /verif.
set -e
cd "$(dirname "$0")/.."
mkdir -p .work evidence coq/Gen
PYTHONPATH=/repo PYTHONHASHSEED=0 JAX_PLATFORMS=cpu /venv/bin/python tools/gen_layer_g.py --validate 20 || true
cd coq
coq_makefile -f _CoqProject -o Makefile
timeout 3000 make -j16 || true
