#!/bin/sh
# run every check once on the current tree (quick tier unless VERIF_TIER is set), sequentially
cd "$(dirname "$0")/.."
T=${VERIF_TIER:-quick}
for p in ${*:-C01 C02 C03 C04 C05 C06 C07 C08 C09 C10 C11 C12 C13 C14 C15 C16 C17 C18 C19 C20}; do
  tools/vcheck.py $p --tier $T > .work/run_${T}_$p.log 2>&1; echo "$p exit=$? $(tail -1 .work/run_${T}_$p.log)"
done
