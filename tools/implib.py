"""Helpers shared by the implementation-side harnesses (run under /venv/bin/python,
PYTHONPATH=/repo, x64, CPU)."""
import json
import math
import os
import sys
import warnings

os.environ.setdefault("JAX_PLATFORMS", "cpu")
warnings.filterwarnings("ignore")
import numpy as np
import jax

jax.config.update("jax_enable_x64", True)
jax.config.update("jax_platform_name", "cpu")

HERE = os.path.dirname(os.path.abspath(__file__))
sys.path.insert(0, HERE)
import jaxpr2coq as J

_IR = None


def ir(name):
    global _IR
    if _IR is None:
        _IR = {k: J.Fn.from_json(v) for k, v in
               json.load(open(os.path.join(HERE, "..", "coq", "Gen", "ir.json"))).items()}
    return _IR[name]


def ir_eval(name, **vals):
    return J.evaluate(ir(name), vals)


def dyadic(rng, lo, hi, denom=8):
    """A short dyadic rational in [lo, hi] (exact in float64)."""
    return rng.randint(int(lo * denom), int(hi * denom)) / denom


def finite(x):
    return isinstance(x, (int, float, np.floating)) and math.isfinite(float(x))


def nudge(x, k):
    return float(np.nextafter(x, math.inf if k > 0 else -math.inf))
