"""jaxpr -> IR -> {Coq text over R, Python float evaluator}.

Front end: jax.make_jaxpr of the *running* /repo code (x64, CPU) on scalar inputs.
IR: straight-line first-order code over a small set of scalar primitives.
Back ends:
  * emit_coq: one Coq definition per output (value), plus `_dom` (every divisor
    nonzero / every log argument positive on the branches actually taken) and
    `_gdom` (the same on BOTH branches of every select: what reverse-mode AD needs).
  * evaluate: plain float64 evaluation of the IR (validated against the real
    function on every run by tools/gen_layer_g.py).
It fails closed: any primitive, shape or dtype it does not know raises
TranslationError, the generated file is not written, and every theorem importing it
becomes an undischarged obligation.
"""
import math
from fractions import Fraction
from decimal import Decimal

import numpy as np


class TranslationError(Exception):
    pass


CALL_PRIMS = {"pjit", "jit", "closed_call", "core_call", "custom_jvp_call",
              "custom_vjp_call", "custom_vjp_call_jaxpr", "remat", "checkpoint",
              "custom_lin"}
UNARY = {"neg", "exp", "log", "log1p", "expm1", "tanh", "logistic", "abs", "sqrt",
         "square", "sign", "not", "stop_gradient", "copy", "copy_p"}
BINARY = {"add", "sub", "mul", "div", "min", "max", "lt", "le", "gt", "ge", "eq",
          "ne", "and", "or", "pow", "add_any"}
BOOL_OUT = {"lt", "le", "gt", "ge", "eq", "ne", "and", "or", "not"}


class Fn:
    """IR of one traced function."""

    def __init__(self, name, args, eqns, outs, flags):
        self.name = name          # str
        self.args = args          # [(name, 'R'|'B')]
        self.eqns = eqns          # [(out, prim, [atom], params)]
        self.outs = outs          # [(outname, atom)]
        self.flags = flags        # set of str, e.g. {'stop_gradient'}

    def to_json(self):
        return {"name": self.name, "args": self.args, "eqns": self.eqns,
                "outs": self.outs, "flags": sorted(self.flags)}

    @staticmethod
    def from_json(d):
        eq = [(o, p, [tuple(a) for a in ins], par) for o, p, ins, par in d["eqns"]]
        return Fn(d["name"], [tuple(a) for a in d["args"]], eq,
                  [(n, tuple(a)) for n, a in d["outs"]], set(d["flags"]))


# --------------------------------------------------------------------------- front end

def _scalar_kind(aval):
    if tuple(aval.shape) != ():
        raise TranslationError(f"non-scalar value of shape {aval.shape}")
    k = np.dtype(aval.dtype).kind
    if k == "f":
        return "R"
    if k == "b":
        return "B"
    if k in "iu":
        return "I"
    raise TranslationError(f"unsupported dtype {aval.dtype}")


def _lit(val):
    a = np.asarray(val)
    if a.shape != ():
        raise TranslationError(f"non-scalar constant of shape {a.shape}")
    if a.dtype.kind == "b":
        return ("b", bool(a))
    if a.dtype.kind in "fiu":
        f = float(a)
        if not math.isfinite(f):
            raise TranslationError(f"non-finite constant {f}")
        return ("c", f)
    raise TranslationError(f"unsupported constant dtype {a.dtype}")


def trace(name, fn, args, outnames):
    """args: [(name, example)] with float or bool examples; outnames: names of the
    flattened outputs (pytree leaves in jax order)."""
    import jax
    from jax.extend import core as jcore  # noqa: F401  (Literal lives in jax.core too)

    examples = [ex for _, ex in args]
    closed = jax.make_jaxpr(fn)(*examples)
    counter = [0]
    eqns = []
    flags = set()

    def fresh():
        counter[0] += 1
        return f"t{counter[0]}"

    def walk(jaxpr, consts, inputs):
        env = {}

        def read(v):
            if hasattr(v, "val"):  # Literal
                return _lit(v.val)
            return env[v]

        if len(jaxpr.constvars) != len(consts):
            raise TranslationError("constvars/consts mismatch")
        for cv, c in zip(jaxpr.constvars, consts):
            env[cv] = _lit(c)
        if len(jaxpr.invars) != len(inputs):
            raise TranslationError("arity mismatch")
        for iv, a in zip(jaxpr.invars, inputs):
            _scalar_kind(iv.aval)
            env[iv] = a
        for e in jaxpr.eqns:
            p = e.primitive.name
            ins = [read(v) for v in e.invars]
            for ov in e.outvars:
                _scalar_kind(ov.aval)
            if p in CALL_PRIMS:
                inner = None
                for key in ("jaxpr", "call_jaxpr", "fun_jaxpr"):
                    if key in e.params:
                        inner = e.params[key]
                        break
                if inner is None:
                    raise TranslationError(f"call primitive {p} without jaxpr")
                if hasattr(inner, "jaxpr"):
                    res = walk(inner.jaxpr, list(inner.consts), ins)
                else:
                    res = walk(inner, [], ins)
                for ov, r in zip(e.outvars, res):
                    env[ov] = r
                continue
            if len(e.outvars) != 1:
                raise TranslationError(f"primitive {p} with {len(e.outvars)} outputs")
            ov = e.outvars[0]
            if p == "convert_element_type":
                src = _scalar_kind(e.invars[0].aval)
                dst = _scalar_kind(ov.aval)
                if (src, dst) in (("R", "R"), ("I", "R"), ("I", "I"), ("B", "B")):
                    env[ov] = ins[0]
                    continue
                raise TranslationError(f"convert_element_type {src}->{dst}")
            if p in ("broadcast_in_dim", "reshape", "squeeze", "expand_dims"):
                env[ov] = ins[0]      # all shapes are () (checked above)
                continue
            if p == "integer_pow":
                y = int(e.params["y"])
                o = fresh()
                eqns.append((o, "integer_pow", ins, {"y": y}))
                env[ov] = ("v", o)
                continue
            if p == "select_n":
                if len(ins) != 3:
                    raise TranslationError("select_n with != 2 cases")
                if _scalar_kind(e.invars[0].aval) != "B":
                    raise TranslationError("select_n on non-boolean predicate")
                o = fresh()
                eqns.append((o, "select_n", ins, {}))
                env[ov] = ("v", o)
                continue
            if p in UNARY:
                if p in ("stop_gradient",):
                    flags.add("stop_gradient")
                if p in ("stop_gradient", "copy", "copy_p"):
                    env[ov] = ins[0]
                    continue
                o = fresh()
                eqns.append((o, p, ins, {}))
                env[ov] = ("v", o)
                continue
            if p in BINARY:
                q = "add" if p == "add_any" else p
                o = fresh()
                eqns.append((o, q, ins, {}))
                env[ov] = ("v", o)
                continue
            raise TranslationError(f"unsupported primitive {p}")
        return [read(v) for v in jaxpr.outvars]

    kinds = []
    for (an, ex), iv in zip(args, closed.jaxpr.invars):
        kinds.append((an, _scalar_kind(iv.aval)))
    inputs = [("v", an) for an, _ in args]
    res = walk(closed.jaxpr, list(closed.consts), inputs)
    if len(res) != len(outnames):
        raise TranslationError(
            f"{name}: {len(res)} outputs but {len(outnames)} names {outnames}")
    return Fn(name, kinds, eqns, list(zip(outnames, res)), flags)


# --------------------------------------------------------------------------- analysis

def live_eqns(fn, out_atom):
    """Equations needed for one output, in order (dead code removed)."""
    need = set()
    if out_atom[0] == "v":
        need.add(out_atom[1])
    keep = []
    for o, p, ins, par in reversed(fn.eqns):
        if o in need:
            keep.append((o, p, ins, par))
            for a in ins:
                if a[0] == "v":
                    need.add(a[1])
    keep.reverse()
    return keep


# --------------------------------------------------------------------------- evaluator

def evaluate(fn, values):
    """values: dict argname -> float/bool.  Returns dict outname -> float64/bool.
    IEEE semantics (division by zero -> inf/nan, no exceptions), like XLA on CPU."""
    env = {k: (np.float64(v) if not isinstance(v, (bool, np.bool_)) else bool(v))
           for k, v in values.items()}

    def rd(a):
        if a[0] == "v":
            return env[a[1]]
        if a[0] == "c":
            return np.float64(a[1])
        return bool(a[1])

    with np.errstate(all="ignore"):
        for o, p, ins, par in fn.eqns:
            x = [rd(a) for a in ins]
            if p == "add": r = x[0] + x[1]
            elif p == "sub": r = x[0] - x[1]
            elif p == "mul": r = x[0] * x[1]
            elif p == "div": r = np.float64(x[0]) / np.float64(x[1])
            elif p == "neg": r = -x[0]
            elif p == "exp": r = np.exp(x[0])
            elif p == "log": r = np.log(x[0])
            elif p == "log1p": r = np.log1p(x[0])
            elif p == "expm1": r = np.expm1(x[0])
            elif p == "tanh": r = np.tanh(x[0])
            elif p == "logistic":
                r = np.float64(1.0) / (np.float64(1.0) + np.exp(-x[0]))
            elif p == "abs": r = np.abs(x[0])
            elif p == "sqrt": r = np.sqrt(x[0])
            elif p == "square": r = x[0] * x[0]
            elif p == "sign": r = np.sign(x[0])
            elif p == "min": r = np.minimum(x[0], x[1])
            elif p == "max": r = np.maximum(x[0], x[1])
            elif p == "pow": r = np.power(x[0], x[1])
            elif p == "integer_pow": r = np.float64(x[0]) ** par["y"]
            elif p == "lt": r = bool(x[0] < x[1])
            elif p == "le": r = bool(x[0] <= x[1])
            elif p == "gt": r = bool(x[0] > x[1])
            elif p == "ge": r = bool(x[0] >= x[1])
            elif p == "eq": r = bool(x[0] == x[1])
            elif p == "ne": r = bool(x[0] != x[1])
            elif p == "and": r = bool(x[0]) and bool(x[1])
            elif p == "or": r = bool(x[0]) or bool(x[1])
            elif p == "not": r = not bool(x[0])
            elif p == "select_n": r = x[2] if x[0] else x[1]
            else:
                raise TranslationError(f"evaluate: {p}")
            env[o] = r
    return {n: rd(a) for n, a in fn.outs}


# --------------------------------------------------------------------------- Coq back end

COQ_RESERVED = {"exp", "ln", "sqrt", "tanh", "Rmin", "Rmax", "Rabs", "if", "then",
                "else", "let", "in", "fun", "forall", "exists", "at", "as", "end",
                "match", "with", "return", "Type", "Prop", "Set", "R", "pi", "PI",
                "cos", "sin", "e", "IZR", "INR", "pow", "powerRZ", "up", "True",
                "False", "true", "false", "fix", "cofix", "struct", "where", "using"}


def coq_ident(s):
    s = "".join(ch if (ch.isalnum() or ch == "_") else "_" for ch in s)
    if not s or s[0].isdigit():
        s = "x" + s
    if s in COQ_RESERVED or (s[0] == "t" and s[1:].isdigit()) or \
       (s[0] == "d" and s[1:].isdigit()):
        s = s + "_"
    return s


def coq_const(f):
    """Shortest round-trip decimal of the double, printed as an integer fraction."""
    fr = Fraction(Decimal(repr(float(f))))
    n, d = fr.numerator, fr.denominator
    if d == 1:
        body = f"{abs(n)}"
    else:
        body = f"({abs(n)} / {d})"
    return f"(- {body})" if n < 0 else body


def _atom(a, ren):
    if a[0] == "v":
        return ren.get(a[1], a[1])
    if a[0] == "c":
        return coq_const(a[1])
    return "true" if a[1] else "false"


def _expr(p, x, par):
    if p == "add": return f"({x[0]} + {x[1]})"
    if p == "sub": return f"({x[0]} - {x[1]})"
    if p == "mul": return f"({x[0]} * {x[1]})"
    if p == "div": return f"({x[0]} / {x[1]})"
    if p == "neg": return f"(- {x[0]})"
    if p == "exp": return f"(exp {x[0]})"
    if p == "log": return f"(ln {x[0]})"
    if p == "log1p": return f"(ln (1 + {x[0]}))"
    if p == "expm1": return f"(exp {x[0]} - 1)"
    if p == "tanh": return f"(tanh {x[0]})"
    if p == "logistic": return f"(1 / (1 + exp (- {x[0]})))"
    if p == "abs": return f"(Rabs {x[0]})"
    if p == "sqrt": return f"(sqrt {x[0]})"
    if p == "square": return f"({x[0]} * {x[0]})"
    if p == "min": return f"(Rmin {x[0]} {x[1]})"
    if p == "max": return f"(Rmax {x[0]} {x[1]})"
    if p == "integer_pow":
        y = par["y"]
        if y >= 0:
            return f"({x[0]} ^ {y})"
        return f"(/ ({x[0]} ^ {-y}))"
    if p == "lt": return f"(rltb {x[0]} {x[1]})"
    if p == "le": return f"(rleb {x[0]} {x[1]})"
    if p == "gt": return f"(rltb {x[1]} {x[0]})"
    if p == "ge": return f"(rleb {x[1]} {x[0]})"
    if p == "eq": return f"(reqb {x[0]} {x[1]})"
    if p == "ne": return f"(negb (reqb {x[0]} {x[1]}))"
    if p == "and": return f"(andb {x[0]} {x[1]})"
    if p == "or": return f"(orb {x[0]} {x[1]})"
    if p == "not": return f"(negb {x[0]})"
    if p == "select_n": return f"(if {x[0]} then {x[2]} else {x[1]})"
    raise TranslationError(f"no Coq form for primitive {p}")


def _side(p, x, par, ins=None):
    """Definedness side condition of one equation (None if total)."""
    if p == "div":
        if ins is not None and ins[1][0] == "c" and ins[1][1] != 0.0:
            return None
        return f"{x[1]} <> 0"
    if p == "log": return f"0 < {x[0]}"
    if p == "log1p": return f"0 < 1 + {x[0]}"
    if p == "sqrt": return f"0 <= {x[0]}"
    if p == "integer_pow" and par["y"] < 0: return f"{x[0]} <> 0"
    if p == "pow": raise TranslationError("real power not supported")
    if p == "sign": raise TranslationError("sign not supported")
    return None


def emit_coq(fn, ren_args=None):
    """Returns Coq text with, per output o:  <name>__<o>, <name>__<o>_dom, <name>__<o>_gdom."""
    ren = {an: coq_ident(an) for an, _ in fn.args}
    binder = " ".join(f"({ren[an]} : {'R' if k == 'R' else 'bool'})" for an, k in fn.args)
    out = []
    for oname, oatom in fn.outs:
        eq = live_eqns(fn, oatom)
        dn = f"{fn.name}__{coq_ident(oname)}"
        bool_out = False
        if oatom[0] == "b":
            bool_out = True
        elif oatom[0] == "v":
            for o, p, _, _ in eq:
                if o == oatom[1] and p in BOOL_OUT:
                    bool_out = True
            for an, k in fn.args:
                if an == oatom[1] and k == "B":
                    bool_out = True
        rty = "bool" if bool_out else "R"
        lets = []
        for o, p, ins, par in eq:
            x = [_atom(a, ren) for a in ins]
            lets.append(f"  let {o} := {_expr(p, x, par)} in")
        res = _atom(oatom, ren)
        out.append(f"Definition {dn} {binder} : {rty} :=\n" + "\n".join(lets)
                   + ("\n" if lets else "") + f"  {res}.\n")
        # _dom: defined-ness along the branches taken
        dlets = []
        dname = {}          # var -> name of its Prop (absent = True)

        def dof(a):
            return dname.get(a[1]) if a[0] == "v" else None

        k = 0
        for o, p, ins, par in eq:
            x = [_atom(a, ren) for a in ins]
            parts = []
            if p == "select_n":
                dp, df, dt = dof(ins[0]), dof(ins[1]), dof(ins[2])
                if dp:
                    parts.append(dp)
                if df or dt:
                    parts.append(f"(if {x[0]} then {dt or 'True'} else {df or 'True'})")
            else:
                for a in ins:
                    d = dof(a)
                    if d and d not in parts:
                        parts.append(d)
                s = _side(p, x, par, ins)
                if s:
                    parts.append(f"({s})")
            if len(parts) == 1 and parts[0] in dname.values():
                dname[o] = parts[0]
            elif parts:
                k += 1
                nm = f"d{k}"
                dname[o] = nm
                dlets.append(f"  let {nm} : Prop := {' /\\ '.join(parts)} in")
        dres = dof(oatom) or "True"
        out.append(f"Definition {dn}_dom {binder} : Prop :=\n" + "\n".join(lets)
                   + ("\n" if lets else "") + "\n".join(dlets) + ("\n" if dlets else "")
                   + f"  {dres}.\n")
        # _gdom: every side condition of every live equation
        sides = []
        for o, p, ins, par in eq:
            x = [_atom(a, ren) for a in ins]
            s = _side(p, x, par, ins)
            if s and f"({s})" not in sides:
                sides.append(f"({s})")
        out.append(f"Definition {dn}_gdom {binder} : Prop :=\n" + "\n".join(lets)
                   + ("\n" if lets else "") + f"  {' /\\ '.join(sides) if sides else 'True'}.\n")
    return "\n".join(out)
